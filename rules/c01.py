"""C01 — pipeline evaluation = sequential handler semantics (DESIGN.md section 3, C01)."""
from engine.util import *
from engine.facts import strip_tmpl

LEVEL = "other"
MIN_OBLIGATIONS = 30
EXPLANATION = (
    "Static path analysis of the single evaluator of all pipeline trees (Pipeline::process) and of the per-kind process() "
    "adapters, on clang's CFG with resolved callees. The evaluator is tree- and message-independent, so rules that hold on "
    "every path of its code hold for every tree x message (structural induction on nesting depth; base case = adapters). "
    "Decided: return value, forward iteration, the only virtual process() call and its operands, exits of the loop under "
    "each outcome of that call, save/restore of formatted text + attributes projected on m_scoped, adapters' must-call "
    "and return facts, LogMessage accessor semantics, writers of the handler list / scoped flag, SimplePipeline "
    "pipeline()/end(). Not a run of the library; behaviour of user handlers is outside.")
TRUSTED = ["Qt semantics: QList range-for iterates begin->end; QList::append appends at the end; QHash::insert(QHash) merges, overriding equal keys;"
           " QSharedPointer<T>::create(args...) forwards args to T's constructor; null QString is distinct from empty"]
ASSUMPTIONS = ["user-supplied handlers (FunctionHandler, custom subclasses) are opaque: they may do anything to the message they are given"]
NOT_DECIDED = ["behaviour of user-supplied handlers"]

TECHNIQUE = "CFG path rules (must-pass / dominance projected on one boolean) + resolved-callee and field-writer enumeration over the clang AST; who-may-call rule on the builder methods (end-append only); list forms of append take every element; a pipeline passed by value is handed on whole (copy constructor, never rebuilt from handlers()); the asynchronous hand-off does not move from the caller's message"
LEVEL_TEXT = ("All paths of the one evaluator function and the four adapters are decided against the sequential semantics, clause by clause; "
              "this covers every pipeline tree and message because the code is tree-independent. It is a structural decision of the library code, not a proof about user handlers.")
LEVEL_NOTE = "trusts clang's AST/CFG, the extractor, Qt container semantics listed in the evidence; user-supplied handlers are opaque"
DESIGN_REF = "DESIGN.md section 3, C01"

P = "QtLogger::Pipeline"
LM = "QtLogger::LogMessage"


def run(ck):
    F = ck.facts
    ck.rule("C01-O1", "every return of Pipeline::process returns the literal true (a nested pipeline never stops its parent)")
    ck.rule("C01-O2", "one forward loop over the field m_handlers contains the only virtual Handler::process call, on the loop element, with the caller's message by reference")
    ck.rule("C01-O3", "process()==false leaves the loop without running another handler; process()==true continues with the next element; a null element is skipped")
    ck.rule("C01-O4", "scoped: formatted text (null if unformatted) and attributes are saved before the loop and restored after it on all paths; unscoped: Pipeline::process itself never mutates the message")
    ck.rule("C01-O5", "adapters: AttrHandler merges attributes(lmsg) and continues; Filter returns filter(lmsg); Formatter sets format(lmsg) and continues; Sink sends and continues; Filter/Formatter/Sink::process are final")
    ck.rule("C01-O6", "formattedMessage() is the formatted text if set else the raw message; isFormatted() is !isNull(); the setters write exactly their field")
    ck.rule("C01-O7", "the handler list and the scoped flag are written only by the sanctioned functions; append(handler) drops null and appends at the end; pipeline() creates a scoped child with parent=this and appends it; end() returns the parent if any")

    proc = F.fn(P + "::process")
    ck.touch(proc)
    g = Graph(proc)
    lmsg = proc.params[0]["decl"]
    ck.require(not F.lambdas_of(proc), "Pipeline::process contains a lambda; the evaluator idiom is no longer recognised")

    # ---- O1
    ok, bad = all_returns_const(proc, True)
    ck.ob("C01-O1", sitestr(proc, bad), ok, "all returns are `true`" if ok else "returns %s" % describe(bad.get("e")) if bad else "no return statement",
          key="Pipeline::process|return-not-true")

    # ---- O2: the virtual call
    vcalls = [n for n in proc.calls() if n.get("virtual") and name_is(n.get("callee"), "QtLogger::Handler::process")]
    # any other way of running a handler from here (non-virtual process of a subclass, calls in helper functions) is unknown idiom
    other = [n for n in proc.calls() if name_is(n.get("callee"), "process") and n not in vcalls]
    ck.require(not other, "Pipeline::process runs handlers through %s; idiom not recognised" % [describe(x) for x in other])
    if not vcalls:
        ck.ob("C01-O2", sitestr(proc), False, "Pipeline::process never invokes Handler::process on its handlers", key="Pipeline::process|vcall-count")
        return
    if len({(c.get("l"), c.get("c")) for c in vcalls}) > 1:
        ck.ob("C01-O2", sitestr(proc), None, "%d different Handler::process call sites in Pipeline::process; the evaluator idiom (one loop) is not recognised" % len(vcalls))
        return
    # one source-level call; several instances exist when the loop lives in a helper that is used on more than one path
    # (e.g. an early return for the unscoped case): every instance is held to the rules, each on the paths it lies on
    is_scoped0 = lambda n: is_this_field(n, P + "::m_scoped")
    live_s0, live_u0 = g.live(g.projector(atom_eq(is_scoped0, True))), g.live(g.projector(atom_eq(is_scoped0, False)))
    sites0 = [g.site_of(c) for c in vcalls]
    ck.ob("C01-O2", sitestr(proc), any(x in live_s0 for x in sites0) and any(x in live_u0 for x in sites0), "the handlers are run both in scoped and in unscoped mode",
          key="Pipeline::process|vcall-count")

    def evaluator(call):
        on_scoped = g.site_of(call) in live_s0
        loops = enclosing_loops(proc, call)
        if len(loops) != 1:
            ck.ob("C01-O2", sitestr(proc, call), False if not loops else None, "the process() call is in %d nested loops (1 expected)" % len(loops),
                  key="Pipeline::process|vcall-not-in-loop")
            return
        loop = loops[0]
        direction = loop_direction(ck, proc, loop)
        ck.ob("C01-O2", sitestr(proc, loop), direction, "loop over m_handlers iterates forward (insertion order)" if direction else
              "loop over m_handlers does not iterate begin->end", key="Pipeline::process|loop-direction")
        elem = unwrap_ptr(call.get("obj"))
        lv = decl_of_loopvar(loop) if loop.get("k") == "rangefor" else None
        if lv is not None:
            okobj = isinstance(elem, dict) and elem.get("k") == "ref" and elem.get("decl") == lv
            ck.ob("C01-O2", sitestr(proc, call), okobj, "process() is invoked on the loop element" if okobj else "process() is invoked on %s, not on the loop element" % describe(elem),
                  key="Pipeline::process|vcall-object")
        okarg = arg_is_param(call, 0, proc, 0)
        ck.ob("C01-O2", sitestr(proc, call), okarg, "the caller's message is passed by reference" if okarg else
              "process() receives %s instead of the caller's message" % describe(call["args"][0]), key="Pipeline::process|vcall-arg")
        ptype = proc.params[0]["type"]
        ck.ob("C01-O2", sitestr(proc), ptype == "QtLogger::LogMessage &", "parameter type is %s" % ptype, key="Pipeline::process|param-type")

        # ---- O3: loop exits under each outcome of the call
        csite = g.site_of(call)
        ck.require(csite is not None, "process() call has no CFG element")
        is_call_atom = value_pred(proc, call)
        keep_false = g.projector(atom_eq(is_call_atom, False))
        keep_true = g.projector(atom_eq(is_call_atom, True))
        # the branch right after the call must depend on the call (otherwise projection does nothing and the rule below would be vacuous)
        decided = branch_depends_on(g, csite, call)
        ck.ob("C01-O3", sitestr(proc, call), decided, "the result of process() decides the branch that follows it" if decided else
              "the result of process() is not tested", key="Pipeline::process|verdict-ignored")
        again_after_reject = g.can_reach(csite, csite, keep=keep_false, strict=True)
        ck.ob("C01-O3", sitestr(proc, call), not again_after_reject,
              "after a rejecting handler no further handler of this pipeline runs" if not again_after_reject else
              "after process() returned false another handler of the same pipeline can still run: %s" % g.render_path(g.find_path(csite, csite, keep=keep_false)),
              key="Pipeline::process|continues-after-reject")
        # after acceptance: the loop goes on (next iteration test is reached on every path)
        condsite = loop_cond_site(g, proc, loop)
        goes_on = g.postdominated(csite, {condsite}, keep=keep_true)
        ck.ob("C01-O3", sitestr(proc, call), goes_on,
              "after an accepting handler the next element is examined on every path" if goes_on else
              "after process() returned true the loop can be left without examining the next handler", key="Pipeline::process|stops-after-accept")
        # null element skipped (never dereferenced)
        if lv is not None:
            is_elem = lambda n: n.get("k") == "ref" and n.get("decl") == lv
            keep_null = g.projector(atom_eq(is_elem, False))
            lvsite = g.site_of(loop["desugar"]["loopVarStmt"])
            r = g.reach([lvsite], blocked={condsite}, keep=keep_null)
            ck.ob("C01-O3", sitestr(proc, call), csite not in r, "a null list element is skipped, not dereferenced" if csite not in r else
                  "process() can be invoked on a null element", key="Pipeline::process|null-element")
            # and skipping a null element goes on with the next one
            nullpaths_exit = g.reach([lvsite], blocked={condsite}, keep=keep_null)
            ck.ob("C01-O3", sitestr(proc, loop), g.exit not in nullpaths_exit, "a null element does not end the evaluation" if g.exit not in nullpaths_exit else
                  "a null element ends the evaluation of the pipeline", key="Pipeline::process|null-element-stops")

        # ---- O4: scoped save / restore
        is_scoped = lambda n: is_this_field(n, P + "::m_scoped")
        keep_s = g.projector(atom_eq(is_scoped, True))
        keep_u = g.projector(atom_eq(is_scoped, False))
        set_f = [n for n in proc.calls(LM + "::setFormattedMessage") if obj_is_param(n, proc, 0)]
        set_a = [n for n in proc.calls(LM + "::setAttributes") if obj_is_param(n, proc, 0)]
        loopsite = g.site_of(loop["desugar"]["rangeStmt"]) if loop.get("k") == "rangefor" else condsite
        for what, sets, getter, must_guard in (("formatted text", set_f, LM + "::formattedMessage", True), ("attributes", set_a, LM + "::attributes", False)):
            tag = "fmsg" if must_guard else "attrs"
            if not sets:
                # handed to a function this rule does not see into (by non-const reference)? then the restore may happen there
                esc = [p_ for r_ in refs_to(proc, lmsg) for p_ in [proc.nodes[proc.parent[r_["id"]]]] if p_.get("k") == "call" and p_.get("id") != call["id"] and p_.get("inl_body") is None
                       and not (p_.get("ck") == "member" and skip_copies(p_.get("obj")).get("id") == r_["id"])]
                ck.ob("C01-O4", sitestr(proc), None if esc else False, "scoped pipeline never restores the %s%s" % (what, " itself; the message is handed to %s" % describe(esc[0])[:40] if esc else ""), key="Pipeline::process|no-restore-" + tag)
                continue
            ssites = set(g.sites_of_nodes(sets))
            # restore after the loop on all scoped paths
            a = g.must_pass(ssites, keep=keep_s)
            b = all(not g.can_reach(s, csite, keep=keep_s) for s in ssites) if on_scoped else True
            c = g.postdominated(csite, ssites, keep=keep_s) if on_scoped else True
            ck.ob("C01-O4", sitestr(proc, sets[0]), a and b and c,
                  "scoped: %s restored after the loop on every path (normal end and break)" % what if (a and b and c) else
                  "scoped: a path leaves Pipeline::process without restoring the %s (all-paths=%s, after-loop=%s, after-each-handler=%s)" % (what, a, b, c),
                  key="Pipeline::process|restore-not-on-all-paths-" + tag)
            # unscoped: not executed
            live_u = g.live(keep_u)
            ck.ob("C01-O4", sitestr(proc, sets[0]), not (ssites & live_u), "unscoped: the %s are left as the handlers set them" % what if not (ssites & live_u)
                  else "unscoped pipeline resets the %s" % what, key="Pipeline::process|unscoped-restores-" + tag)
            # the restored value is a local saved before the loop
            for s in sets:
                v = skip_copies(s["args"][0])
                place = resolve_place(proc, v)
                if place is None:
                    ck.ob("C01-O4", sitestr(proc, s), None, "restored value %s is not a local variable or a field of a local snapshot; idiom not recognised" % describe(v))
                    continue
                check_saved_local(ck, proc, g, place, getter, must_guard, keep_s, loopsite, s, what, tag)
        # nothing else in Pipeline::process mutates the message
        for n in proc.calls():
            if n.get("ck") == "member" and obj_is_param(n, proc, 0) and n.get("constm") is False and n not in set_f and n not in set_a:
                ck.ob("C01-O4", sitestr(proc, n), False, "Pipeline::process mutates the message itself: %s" % describe(n), key="Pipeline::process|extra-mutation")
        uses = [r for r in refs_to(proc, lmsg)]
        for r in uses:
            p = proc.nodes[proc.parent[r["id"]]]
            okuse = (p.get("k") == "call" and p.get("ck") == "member" and skip_copies(p.get("obj")).get("id") == r["id"]) or p.get("id") == call["id"] \
                or (p.get("k") == "decl" and p.get("inl_param")) or (p.get("k") == "call" and p.get("inl_body") is not None)
            if not okuse:
                ck.ob("C01-O4", sitestr(proc, r), None, "the message escapes through %s; idiom not recognised" % describe(p))
        ck.ob("C01-O4", sitestr(proc), True, "%d uses of the message parameter: accessor calls, the two restores and the handler call" % len(uses))


    for call in vcalls:
        evaluator(call)

    adapters(ck)
    logmessage(ck)
    listdiscipline(ck)
    whole_pipeline(ck)
    handoff_leaves_message(ck)


def loop_direction(ck, fn, loop):
    """True forward / False definitely not forward / raises for unknown"""
    if loop.get("k") == "rangefor":
        r = skip_copies(loop.get("range"))
        # qAsConst(x) / std::as_const(x) is x itself, seen through a const reference
        while isinstance(r, dict) and r.get("k") == "call" and name_is(r.get("callee"), ("qAsConst", "std::as_const", "as_const")) and len(r.get("args") or []) == 1:
            r = skip_copies(r["args"][0])
        if is_this_field(r, P + "::m_handlers"):
            return True
        acc = inline_accessor(ck.facts, r)
        if acc is not None and is_this_field(acc, P + "::m_handlers"):
            return True
        # a reversed view / copy
        for n in walk(r):
            if n.get("k") in ("call", "construct") and any(t in (n.get("callee") or n.get("class") or "").lower() for t in ("reverse", "rbegin", "crbegin")):
                return False
        ck.broken("Pipeline::process iterates %s, not the field m_handlers" % describe(r))
    if loop.get("k") == "for":
        txt = [n for n in walk(loop.get("init") or {})] + [n for n in walk(loop.get("inc") or {})]
        for n in txt:
            nm = (n.get("callee") or "")
            if n.get("k") == "call" and name_is(nm, ("rbegin", "crbegin", "rend", "crend")):
                return False
            if n.get("k") in ("unop",) and n.get("op") == "--":
                return False
            if n.get("k") == "call" and n.get("ck") == "operator" and n.get("op") == "--":
                return False
        inc = skip_copies(loop.get("inc"))
        if isinstance(inc, dict) and ((inc.get("k") == "unop" and inc.get("op") == "++") or (inc.get("k") == "call" and inc.get("op") == "++")):
            init = [n for n in walk(loop.get("init") or {})]
            starts_at_begin = any((n.get("k") == "call" and name_is(n.get("callee"), ("begin", "cbegin", "constBegin"))) or (n.get("k") == "int" and n.get("v") == 0) for n in init)
            if starts_at_begin:
                return True
        ck.broken("index/iterator loop in Pipeline::process not recognised")
    ck.broken("loop form %s in Pipeline::process not recognised" % loop.get("k"))


def loop_cond_site(g, fn, loop):
    c = loop["desugar"]["cond"] if loop.get("k") == "rangefor" else loop.get("cond")
    if not isinstance(c, dict):
        raise AnalysisBroken("loop without condition in %s" % fn.sig)
    s = g.site_of(c)
    if s is None:
        raise AnalysisBroken("loop condition has no CFG element in %s" % fn.sig)
    return s


def branch_depends_on(g, site, call):
    """the first two-way branch after `site` within its block has an effective condition mentioning the call"""
    bid = site[0]
    last = max(k for k in g.el if k[0] == bid)
    for e in g.out[last]:
        if e.nsucc == 2 and e.cond is not None:
            c = g.effective_cond(e)
            vp = value_pred(g.fn, call)
            return any(vp(n) for n in walk(c))
    return False


def _whole_object_source(proc, decl):
    """if local `decl` only ever holds a copy of / a reference to another local (initialised or assigned once from it, possibly through
    a spliced helper's return value) return that local's decl"""
    dn, var = local_var(proc, decl)
    if var is None:
        return None
    srcs = []
    if isinstance(var.get("init"), dict):
        i0 = skip_copies(var["init"])
        if not (i0.get("k") == "construct" and not i0.get("args")):
            srcs.append(var["init"])
    for r in refs_to(proc, decl):
        asg, rhs = assignment_target(proc, r)
        if asg is not None:
            srcs.append(rhs)
    if len(srcs) != 1:
        return None
    x = skip_copies(srcs[0])
    for _ in range(4):
        if isinstance(x, dict) and x.get("k") == "call" and x.get("inl_value") is not None and x["inl_value"] in proc.nodes:
            x = skip_copies(proc.nodes[x["inl_value"]])
        elif isinstance(x, dict) and x.get("k") in ("construct", "cast") and (x.get("e") or (x.get("args") and len(x["args"]) == 1)):
            x = skip_copies(x.get("e") or x["args"][0])
        else:
            break
    if isinstance(x, dict) and x.get("k") == "ref" and x.get("dk") == "local" and x.get("decl") != decl:
        return x["decl"]
    return None


def resolve_place(proc, v):
    """(local decl, field name or None) the restored value lives in, after following whole-object copies of a snapshot struct"""
    v = skip_copies(v)
    fld = None
    if v.get("k") == "member" and v.get("dk") == "field":
        fld = v["name"].split("::")[-1]
        v = skip_copies(v.get("base"))
    if not (v.get("k") == "ref" and v.get("dk") == "local"):
        return None
    decl = v["decl"]
    for _ in range(6):
        nxt = _whole_object_source(proc, decl)
        if nxt is None:
            break
        # the intermediate object must not be edited field by field
        if fld is not None and any(asg is not None for _, asg, _ in _field_writes(proc, decl, fld)):
            break
        decl = nxt
    return decl, fld


def _field_writes(proc, decl, fld):
    out = []
    for n in proc.find(lambda n: n.get("k") == "member" and n.get("dk") == "field" and n["name"].split("::")[-1] == fld):
        b = skip_copies(n.get("base"))
        if b.get("k") == "ref" and b.get("decl") == decl:
            asg, rhs = assignment_target(proc, n)
            out.append((n, asg, rhs))
    return out


def check_saved_local(ck, proc, g, place, getter, must_guard, keep_s, loopsite, restore, what, tag):
    """the local (or the field of a local snapshot object) restored after the loop holds the value the message had before the loop"""
    F = ck.facts
    decl, fld = place
    dn, var = local_var(proc, decl)
    ck.require(var is not None, "saved local for %s not found" % what)
    init = skip_copies(var.get("init"))
    init_default = init is None or (isinstance(init, dict) and init.get("k") == "construct" and not init.get("args"))
    init_getter = fld is None and isinstance(init, dict) and is_call(init, getter) and obj_is_param(init, proc, 0)
    isfmt = lambda n: is_call(n, LM + "::isFormatted") and obj_is_param(skip_copies(n), proc, 0)
    writes = []
    if fld is not None:
        rec = [r for r in F.records.values() if (var.get("type") or "").replace("const ", "").replace("struct ", "").strip().endswith(r["name"].split("::")[-1])]
        fdef = [f_ for r in rec for f_ in r.get("fields", []) if f_["name"] == fld]
        if not fdef or isinstance(fdef[0].get("init"), dict):
            ck.ob("C01-O4", sitestr(proc, dn), None, "snapshot field %s has a default member initialiser or its record was not found; idiom not recognised" % fld)
            return
        rid = skip_copies(restore["args"][0])["id"]
        for n, asg, rhs in _field_writes(proc, decl, fld):
            if asg is None:
                if any(a.get("id") == rid or n.get("id") == rid for a in [n] + list(proc.ancestors(n))):
                    continue
                ck.ob("C01-O4", sitestr(proc, n), None, "unrecognised use of the saved %s field" % what)
                return
            writes.append((asg, rhs))
    for r in (refs_to(proc, decl) if fld is None else []):
        if r["id"] == skip_copies(restore["args"][0])["id"]:
            continue
        asg, rhs = assignment_target(proc, r)
        if asg is None:
            ck.ob("C01-O4", sitestr(proc, r), None, "unrecognised use of the saved %s local" % what)
            return
        writes.append((asg, rhs))
    if init_getter and not writes:
        # T saved = lmsg.getter(); (for the formatted text this would turn 'unformatted' into 'formatted with raw text')
        if must_guard:
            ck.ob("C01-O4", sitestr(proc, dn), False, "scoped: the saved formatted text is taken unconditionally, so an unformatted message becomes formatted after the scope",
                  key="Pipeline::process|save-unguarded-" + tag)
        else:
            s = g.site_of(dn)
            ok = g.dominated(loopsite, {s}, keep=keep_s)
            ck.ob("C01-O4", sitestr(proc, dn), ok, "scoped: %s saved before the loop" % what, key="Pipeline::process|save-" + tag)
        return
    if must_guard and not writes and isinstance(init, dict) and init.get("k") == "cond":
        # const QString saved = lmsg.isFormatted() ? lmsg.formattedMessage() : QString();
        c_, t_, f_ = skip_copies(init.get("cond")), skip_copies(init.get("t")), skip_copies(init.get("f"))
        neg = False
        while isinstance(c_, dict) and c_.get("k") == "unop" and c_.get("op") == "!":
            neg = not neg
            c_ = skip_copies(c_.get("e"))
        if neg:
            t_, f_ = f_, t_
        oksel = isfmt(c_) and is_call(t_, getter) and obj_is_param(t_, proc, 0) and isinstance(f_, dict) and f_.get("k") == "construct" and not f_.get("args")
        s = g.site_of(dn)
        okdom = g.dominated(loopsite, {s}, keep=keep_s)
        ck.ob("C01-O4", sitestr(proc, dn), bool(oksel and okdom), "scoped: the saved text is the formatted text iff the message is formatted, else the null text; taken before the loop" if (oksel and okdom) else
              "scoped: saved formatted text is %s (before-loop=%s)" % (describe(init), okdom), key="Pipeline::process|save-guard-" + tag)
        return
    if not init_default:
        ck.ob("C01-O4", sitestr(proc, dn), None, "saved %s local has an unrecognised initialiser %s" % (what, describe(init)))
        return
    if len(writes) != 1:
        ck.ob("C01-O4", sitestr(proc, dn), False if not writes else None, "scoped: the %s are %s" % (what, "never saved" if not writes else "assigned %d times" % len(writes)),
              key="Pipeline::process|save-missing-" + tag)
        return
    asg, rhs = writes[0]
    okrhs = is_call(rhs, getter) and obj_is_param(skip_copies(rhs), proc, 0)
    ck.ob("C01-O4", sitestr(proc, asg), okrhs, "saved value is lmsg.%s()" % getter.split("::")[-1] if okrhs else "saved value is %s" % describe(rhs),
          key="Pipeline::process|save-source-" + tag)
    s = g.site_of(asg)
    if must_guard:
        keep_fmt = g.projector(atoms((lambda n: is_this_field(n, P + "::m_scoped"), True), (isfmt, True)))
        keep_unf = g.projector(atoms((lambda n: is_this_field(n, P + "::m_scoped"), True), (isfmt, False)))
        a = g.dominated(loopsite, {s}, keep=keep_fmt)
        b = s not in g.live(keep_unf)
        ck.ob("C01-O4", sitestr(proc, asg), a and b,
              "scoped: formatted text saved before the loop iff the message is formatted (else the null text is restored)" if (a and b) else
              "scoped: save of the formatted text: on-all-formatted-paths=%s, skipped-when-unformatted=%s" % (a, b), key="Pipeline::process|save-guard-" + tag)
    else:
        a = g.dominated(loopsite, {s}, keep=keep_s)
        ck.ob("C01-O4", sitestr(proc, asg), a, "scoped: attributes saved before the loop on every path" if a else "scoped: a path reaches the loop without saving the attributes",
              key="Pipeline::process|save-" + tag)
    # the save happens before the loop (never after a handler ran)
    csites = g.sites(lambda n: n.get("k") == "call" and n.get("virtual") and name_is(n.get("callee"), "QtLogger::Handler::process"))
    late = any(g.can_reach(c, s) for c in csites)
    ck.ob("C01-O4", sitestr(proc, asg), not late, "the save cannot run after a handler" if not late else "the %s can be saved after a handler already ran" % what,
          key="Pipeline::process|save-late-" + tag)


def adapters(ck, only_sink_rid=None):
    F = ck.facts

    def must_call_then_true(cls, inner, outer, rid="C01-O5"):
        fn = F.fn("QtLogger::%s::process" % cls)
        ck.touch(fn)
        g = Graph(fn)
        inner_calls = [n for n in fn.calls("QtLogger::%s::%s" % (cls, inner)) if arg_is_param(n, 0, fn, 0) and n.get("virtual")]
        if outer:
            outs = [n for n in fn.calls(outer) if obj_is_param(n, fn, 0) and n.get("args") and any(skip_copies(n["args"][0]).get("id") == i["id"] for i in inner_calls)]
            what = "%s(%s(lmsg))" % (outer.split("::")[-1], inner)
        else:
            outs = inner_calls
            what = "%s(lmsg)" % inner
        ok = bool(outs) and g.must_pass(set(g.sites_of_nodes(outs))) and all(not g.in_cycle(s) for s in g.sites_of_nodes(outs)) and len(outs) == 1
        ck.ob(rid, sitestr(fn), ok, "%s::process executes %s exactly once on every path" % (cls, what) if ok else "%s::process does not execute %s exactly once on every path" % (cls, what),
              key="%s::process|must-call" % cls)
        ok, bad = all_returns_const(fn, True)
        ck.ob(rid, sitestr(fn, bad), ok, "%s::process returns true" % cls if ok else "%s::process can return %s" % (cls, describe(bad.get("e")) if bad else "nothing"),
              key="%s::process|return" % cls)
        # no other mutation of the message
        for n in fn.calls():
            if n.get("ck") == "member" and obj_is_param(n, fn, 0) and n.get("constm") is False and n not in outs:
                ck.ob(rid, sitestr(fn, n), False, "%s::process also mutates the message: %s" % (cls, describe(n)), key="%s::process|extra-mutation" % cls)
        return fn

    if only_sink_rid:
        # another property claims just the sink adapter (every message that reaches a sink is sent, exactly once)
        must_call_then_true("Sink", "send", None, rid=only_sink_rid)
        return
    must_call_then_true("AttrHandler", "attributes", LM + "::updateAttributes")
    fm = must_call_then_true("Formatter", "format", LM + "::setFormattedMessage")
    sk = must_call_then_true("Sink", "send", None)
    fl = F.fn("QtLogger::Filter::process")
    ck.touch(fl)
    rs = returns(fl)
    okf = len(rs) == 1 and is_call(rs[0].get("e"), "QtLogger::Filter::filter") and arg_is_param(skip_copies(rs[0]["e"]), 0, fl, 0) and skip_copies(rs[0]["e"]).get("virtual")
    ck.ob("C01-O5", sitestr(fl), okf, "Filter::process returns exactly filter(lmsg)" if okf else "Filter::process returns %s" % [describe(r.get("e")) for r in rs],
          key="Filter::process|return")
    for n in fl.calls():
        if n.get("ck") == "member" and obj_is_param(n, fl, 0) and n.get("constm") is False:
            ck.ob("C01-O5", sitestr(fl, n), False, "Filter::process mutates the message: %s" % describe(n), key="Filter::process|extra-mutation")
    fparam = fl.params[0]["type"]
    for fn in (fm, sk, fl):
        # informational only: dropping `final` changes no behaviour by itself, so it is not an obligation;
        # what matters is that no subclass in the library overrides the adapter
        ck.notes.append("%s is %sfinal" % (strip_tmpl(fn.name), "" if fn.d.get("final") else "NOT "))
        ovs = [F.methods[m]["name"] for m in F.overriders.get(fn.id, ())]
        ck.ob("C01-O5", sitestr(fn), not ovs, "no class in the library overrides %s" % strip_tmpl(fn.name) if not ovs else "%s is overridden by %s" % (fn.name, ovs),
              key="%s|overridden" % fn.name.replace("QtLogger::", ""))
    for cls, m in (("Filter", "filter"), ("Formatter", "format"), ("Sink", "send"), ("AttrHandler", "attributes")):
        rec = F.record("QtLogger::" + cls)
        ms = [x for x in rec["methods"] if x["name"] == "QtLogger::%s::%s" % (cls, m)]
        if ms:
            ck.notes.append("signature: %s" % ms[0]["sig"])
    fh = F.fn("QtLogger::FunctionHandler::process")
    ck.touch(fh)
    rs = returns(fh)
    e = skip_copies(rs[0].get("e")) if len(rs) == 1 else None
    okh = e is not None and e.get("k") == "call" and e.get("op") == "()" and is_this_field(e["args"][0], "QtLogger::FunctionHandler::m_function") and arg_is_param(e, 1, fh, 0)
    ck.ob("C01-O5", sitestr(fh), okh, "FunctionHandler::process returns m_function(lmsg)" if okh else "FunctionHandler::process no longer returns m_function(lmsg)",
          key="FunctionHandler::process|return")


def logmessage(ck, rid="C01-O6"):
    F = ck.facts
    rec = F.record(LM)
    nonconst = sorted(f["name"] for f in rec["fields"] if not f["const"])
    ok = nonconst == ["m_attributes", "m_formattedMessage"]
    ck.ob(rid, "logmessage.h (LogMessage)", ok, "the only mutable parts of a message are %s" % nonconst, key="LogMessage|mutable-fields")
    fm = F.fn(LM + "::formattedMessage")
    isf = F.fn(LM + "::isFormatted")
    ck.touch(fm, isf)
    g = Graph(fm)
    isfmt = lambda n: is_call(n, LM + "::isFormatted")
    for val, field in ((True, "m_formattedMessage"), (False, "m_message")):
        rv = return_values_under(fm, g, atom_eq(isfmt, val))
        ok = bool(rv) and all(is_this_field(v, LM + "::" + field) for _, v in rv)
        ck.ob(rid, sitestr(fm), ok, "formattedMessage() returns %s when isFormatted() is %s" % (field, val) if ok else
              "formattedMessage() returns %s when isFormatted() is %s" % ([describe(v) for _, v in rv], val), key="LogMessage::formattedMessage|%s" % val)
    g2 = Graph(isf)
    isnull = lambda n: is_call(n, "QString::isNull") and is_this_field(skip_copies(n).get("obj"), LM + "::m_formattedMessage")
    other_tests = [n for n in isf.calls() if n.get("ck") == "member" and is_this_field(n.get("obj"), LM + "::m_formattedMessage") and not isnull(n)]
    if other_tests:
        ck.ob(rid, sitestr(isf, other_tests[0]), False, "isFormatted() tests %s instead of the null state (an empty formatted text would count as unformatted)" % describe(other_tests[0]),
              key="LogMessage::isFormatted|not-null-test")
    else:
        for val in (True, False):
            rs = returns(isf)
            vals = [eval_cond(r.get("e"), atom_eq(isnull, val)) for r in rs if g2.site_of(r) in g2.live(g2.projector(atom_eq(isnull, val)))]
            ok = bool(vals) and all(v is (not val) for v in vals)
            ck.ob(rid, sitestr(isf), ok if all(v is not None for v in vals) else None, "isFormatted() is %s when the formatted text is%s null" % (not val, "" if val else " not"),
                  key="LogMessage::isFormatted|%s" % val)
    # setters
    for name, field, how in (("setFormattedMessage", "m_formattedMessage", "assign"), ("setAttributes", "m_attributes", "assign"), ("updateAttributes", "m_attributes", "merge")):
        fn = F.fn(LM + "::" + name)
        ck.touch(fn)
        g3 = Graph(fn)
        if how == "assign":
            nodes = [n for n in fn.calls() if n.get("op") == "=" and is_this_field(n["args"][0], LM + "::" + field) and arg_is_param(n, 1, fn, 0)]
            nodes += [n for n in fn.find(lambda n: n.get("k") == "binop" and n.get("op") == "=" and is_this_field(n.get("lhs"), LM + "::" + field))]
        else:
            nodes = [n for n in fn.calls() if n.get("ck") == "member" and name_is(n.get("callee"), ("insert", "unite")) and is_this_field(n.get("obj"), LM + "::" + field) and arg_is_param(n, 0, fn, 0)]
        ok = len(nodes) == 1 and g3.must_pass(set(g3.sites_of_nodes(nodes)))
        if not ok and how == "merge" and len(nodes) == 1 and fn.params:
            # merging an empty set changes nothing: a path that skips the merge is fine exactly when the argument is empty
            emp = lambda n_: is_call(n_, ("isEmpty", "empty")) and is_ref_to(skip_copies(n_).get("obj"), fn.params[0]["decl"])
            ok = g3.must_pass(set(g3.sites_of_nodes(nodes)), keep=g3.projector(atom_eq(emp, False)))
        ck.ob(rid, sitestr(fn), ok, "%s() %ss its argument to %s on every path" % (name, how, field) if ok else "%s() no longer %ss its argument to %s on every path" % (name, how, field),
              key="LogMessage::%s|effect" % name)
        others = [w for w in field_writes(F, LM + "::m_formattedMessage") + field_writes(F, LM + "::m_attributes") if w[0].id == fn.id and w[1].get("id") not in [skip_copies(n.get("args", [{}])[0]).get("id") if n.get("ck") == "operator" else skip_copies(n.get("obj")).get("id") for n in nodes]]
        ck.ob(rid, sitestr(fn), not others, "%s() writes nothing else" % name if not others else "%s() also writes %s" % (name, [describe(w[1]) for w in others]),
              key="LogMessage::%s|extra-write" % name)
    for name, field in (("attributes", "m_attributes"),):
        fn = F.fn(LM + "::" + name)
        rs = returns(fn)
        ok = len(rs) == 1 and is_this_field(rs[0].get("e"), LM + "::" + field)
        ck.ob(rid, sitestr(fn), ok, "%s() returns %s" % (name, field), key="LogMessage::%s|return" % name)
    # who writes the two fields at all (informational: a new setter is an API extension, not a violation)
    for fld in ("m_formattedMessage", "m_attributes"):
        for fn, n, how in field_writes(F, LM + "::" + fld):
            ck.notes.append("%s written (%s) by %s at %s" % (fld, how, fn.name, fn.loc(n)))


def listdiscipline(ck):
    F = ck.facts
    # the list and the scoped flag are not modified while the pipeline is being evaluated
    proc = F.fn(P + "::process")
    reach = F.reachable_from([proc], virtual=False)
    n_w = 0
    for fld in ("m_handlers", "m_scoped"):
        for f, n, how in field_writes(F, P + "::" + fld):
            ck.notes.append("%s written (%s) by %s at %s" % (fld, how, f.sig, f.loc(n)))
            if f.id not in reach:
                continue
            n_w += 1
            benign = fld == "m_handlers" and f.id == proc.id and how in ("call(begin)", "call(end)")
            ck.ob("C01-O7", sitestr(f, n), benign, "evaluation only iterates m_handlers (%s)" % how if benign else
                  "%s is modified (%s) during evaluation, in %s" % (fld, how, f.sig), key="Pipeline::%s|written-during-process|%s" % (fld, strip_tmpl(f.name)))
    acc = [m for m in F.record(P)["methods"] if m["name"] == P + "::handlers" and not m["constm"]]
    for f, n in F.callers_of(lambda n: acc and n.get("fn") == acc[0]["fn"]):
        if f.id in reach:
            ck.ob("C01-O7", sitestr(f, n), False, "the mutable handler list is taken during evaluation in %s" % f.sig, key="Pipeline::handlers|used-during-process|%s" % strip_tmpl(f.name))
    # constructor initialisers: m_scoped(scoped)
    ws = [w for w in field_writes(F, P + "::m_scoped") if w[2] == "ctor-init"]
    ck.require(len(ws) >= 2, "constructor initialisers of m_scoped not found")
    for f, n, how in ws:
        e = skip_copies(n)
        pidx = [i for i, p in enumerate(f.params) if p["type"] == "bool"]
        ok = e.get("k") == "ref" and pidx and e.get("decl") == f.params[pidx[-1]]["decl"]
        ck.ob("C01-O7", sitestr(f), ok, "m_scoped(%s)" % describe(e), key="Pipeline::m_scoped|init|%s" % f.sig)
    # append(handler)
    ap = F.fn(P + "::append", sig_contains="const QSharedPointer")
    ck.touch(ap)
    g = Graph(ap)
    pdecl = ap.params[0]["decl"]
    is_null = lambda n: is_call(n, ("isNull",)) and is_ref_to(skip_copies(n).get("obj"), pdecl)
    is_h = lambda n: n.get("k") == "ref" and n.get("decl") == pdecl and False
    apps = [n for n in ap.calls() if n.get("ck") == "member" and name_is(n.get("callee"), ("append", "push_back")) and is_this_field(n.get("obj"), P + "::m_handlers") and arg_is_param(n, 0, ap, 0)]
    ins = [n for n in ap.calls() if n.get("ck") == "member" and name_is(n.get("callee"), ("prepend", "insert", "push_front")) and is_this_field(n.get("obj"), P + "::m_handlers")]
    if ins:
        ck.ob("C01-O7", sitestr(ap, ins[0]), False, "append() inserts at another position: %s" % describe(ins[0]), key="Pipeline::append|not-at-end")
    if apps:
        sites = set(g.sites_of_nodes(apps))
        a = g.must_pass(sites, keep=g.projector(atom_eq(is_null, False)))
        b = not (sites & g.live(g.projector(atom_eq(is_null, True))))
        ck.ob("C01-O7", sitestr(ap, apps[0]), a and b, "append(): non-null handler appended at the end on every path, null dropped" if (a and b) else
              "append(): appended-when-non-null=%s, dropped-when-null=%s" % (a, b), key="Pipeline::append|effect")
    else:
        ck.ob("C01-O7", sitestr(ap), False, "append() no longer appends its argument to m_handlers", key="Pipeline::append|effect")
    # the list forms: append({a, b, c}) and Pipeline({a, b, c}[, scoped]) take every element, in order; a null element at most
    # drops itself, never the elements behind it
    for lf in [f_ for f_ in F.fn_all(P + "::append") + F.fn_all(P + "::Pipeline") if f_.body is not None and f_.params and "initializer_list" in (f_.params[0].get("type") or "")]:
        ck.touch(lf)
        lg = Graph(lf)
        short = "Pipeline(list)" if lf.d.get("kind") == "ctor" else "append(list)"
        pd = lf.params[0]["decl"]
        bulk = [n for n in lf.calls() if n.get("ck") in ("member", "operator") and name_is(n.get("callee"), ("append", "operator+=", "operator<<", "operator=", P + "::append")) and
                any(x.get("k") == "ref" and x.get("decl") == pd for a in n.get("args", []) for x in walk(a))]
        bulk_init = [i for i in lf.inits if i.get("member") == P + "::m_handlers" and isinstance(i.get("e"), dict) and any(x.get("k") == "ref" and x.get("decl") == pd for x in walk(i["e"]))]
        loops_ = [l for l in find_loops(lf) if l.get("k") == "rangefor" and is_ref_to(skip_copies(l.get("range")), pd)]
        if bulk_init or (bulk and lg.must_pass(set(lg.sites_of_nodes(bulk)))):
            ck.ob("C01-O7", sitestr(lf), True, "%s hands the whole list over in one step" % short, key="Pipeline::%s|all-elements" % short)
        elif len(loops_) == 1:
            loop_ = loops_[0]
            lv_ = decl_of_loopvar(loop_)
            isn = lambda n_: (is_call(n_, "isNull") and is_ref_to(skip_copies(n_).get("obj"), lv_)) or None
            def atom_null(val):
                def a_(n_):
                    if is_call(n_, "isNull") and is_ref_to(skip_copies(n_).get("obj"), lv_):
                        return val
                    if n_.get("k") == "ref" and n_.get("decl") == lv_:
                        return not val
                    return None
                return a_
            cs_ = lg.site_of(loop_["desugar"]["cond"])
            ls_ = lg.site_of(loop_["desugar"]["loopVarStmt"])
            adds = [n for n in lf.calls() if name_is(n.get("callee"), ("append", "push_back", "operator<<", "operator+=", P + "::append")) and any(is_ref_to(unwrap_ptr(skip_copies(a)), lv_) for a in n.get("args", []))]
            goes_on = all(lg.postdominated(ls_, {cs_}, keep=lg.projector(atom_null(v))) for v in (True, False))
            added = bool(adds) and lg.exit not in lg.reach([ls_], blocked=set(lg.sites_of_nodes(adds)) , keep=lg.projector(atom_null(False)), include_start=False) and \
                cs_ not in lg.reach([ls_], blocked=set(lg.sites_of_nodes(adds)), keep=lg.projector(atom_null(False)), include_start=False)
            ck.ob("C01-O7", sitestr(lf, loop_), goes_on and added, "%s: every non-null element is appended and the loop goes on to the next element whatever the element was" % short if (goes_on and added) else
                  "%s: %s" % (short, "an element (a null one, say) ends the loop: the handlers listed behind it are silently dropped" if not goes_on else "a non-null element is not appended on every path"),
                  key="Pipeline::%s|all-elements" % short)
        else:
            ck.ob("C01-O7", sitestr(lf), None, "%s: neither a bulk hand-over nor one loop over the list" % short, key="Pipeline::%s|all-elements" % short)
    # operator<< delegates to append
    op = F.fn(P + "::operator<<")
    ck.touch(op)
    g = Graph(op)
    cs = [n for n in op.calls(P + "::append") if arg_is_param(n, 0, op, 0)]
    ok = bool(cs) and g.must_pass(set(g.sites_of_nodes(cs)))
    ck.ob("C01-O7", sitestr(op), ok, "operator<< appends its argument", key="Pipeline::operator<<|effect")
    # SimplePipeline::pipeline()/end()
    SP = "QtLogger::SimplePipeline"
    pf = F.fn(SP + "::pipeline")
    ck.touch(pf)
    g = Graph(pf)
    creates = [n for n in pf.calls() if name_is(strip_tmpl(n.get("callee") or ""), "QSharedPointer::create") and "SimplePipeline" in (n.get("callee") or "")]
    if len(creates) != 1:
        ck.ob("C01-O7", sitestr(pf), None, "SimplePipeline::pipeline() no longer creates exactly one child through QSharedPointer::create")
    else:
        c = creates[0]
        a0 = const_int(c["args"][0]) if c.get("args") else None
        a1 = skip_copies(c["args"][1]) if len(c.get("args", [])) > 1 else None
        ck.ob("C01-O7", sitestr(pf, c), a0 == 1, "child pipeline is created scoped" if a0 == 1 else "child pipeline is created with scoped=%s" % describe(c["args"][0]) if c.get("args") else "child created without arguments (unscoped)",
              key="SimplePipeline::pipeline|scoped")
        ck.ob("C01-O7", sitestr(pf, c), isinstance(a1, dict) and a1.get("k") == "this", "child's parent is this", key="SimplePipeline::pipeline|parent")
        # appended and returned
        dn = [n for n in pf.find(lambda n: n.get("k") == "decl") if any(skip_copies(v.get("init") or {}).get("id") == c["id"] for v in n.get("vars", []))]
        if dn:
            vdecl = dn[0]["vars"][0]["decl"]
            apps = [n for n in pf.calls() if name_is(n.get("callee"), ("append", "appendPipeline")) and n.get("args") and is_ref_to(unwrap_ptr(n["args"][0]), vdecl)]
            ok = bool(apps) and g.must_pass(set(g.sites_of_nodes(apps)))
            ck.ob("C01-O7", sitestr(pf), ok, "the child is appended to this pipeline on every path" if ok else "the child is not appended to this pipeline", key="SimplePipeline::pipeline|appended")
            rs = returns(pf)
            ok = bool(rs) and all(is_ref_to(unwrap_ptr(r.get("e")), vdecl) for r in rs)
            ck.ob("C01-O7", sitestr(pf), ok, "pipeline() returns the child" if ok else "pipeline() returns %s" % [describe(r.get("e")) for r in rs], key="SimplePipeline::pipeline|returns")
        else:
            ck.ob("C01-O7", sitestr(pf), None, "child pipeline is not bound to a local; idiom not recognised")
    # ---- O9: overrides of Pipeline::process in the pipeline classes
    ck.rule("C01-O9", "a pipeline class that overrides process() still evaluates its handler list: every path calls the base implementation with the caller's message "
            "(the asynchronous hand-off of OwnThreadHandler is C03's business)")
    pp = F.fn(P + "::process")
    verified = {pp.id}
    todo = list(F.overriders.get(pp.id, ()))
    n_ov = 0
    while todo:
        oid = todo.pop()
        of = F.fns.get(oid)
        if of is None or of.body is None or oid in verified:
            continue
        todo += list(F.overriders.get(oid, ()))
        if strip_tmpl(of.cls or "") == "QtLogger::OwnThreadHandler":
            continue
        n_ov += 1
        ck.touch(of)
        go = Graph(of)
        mdecl = of.params[0].get("decl") if of.params else None
        base = [n_ for n_ in of.calls() if n_.get("fn") in verified and n_.get("qualified") and n_.get("args") is not None and
                (not n_.get("args") or is_ref_to(skip_copies(n_["args"][0]), mdecl))]
        bs = set(go.sites_of_nodes(base)) if base else set()
        short = strip_tmpl(of.name).replace("QtLogger::", "")
        nonempty = lambda n_: False if (isinstance(n_, dict) and n_.get("k") == "call" and strip_tmpl(n_.get("callee") or "") in ("QList::isEmpty", "QList::empty") and
                                        (is_this_field(unwrap_ptr(n_.get("obj")), P + "::m_handlers") or is_call(unwrap_ptr(n_.get("obj")), P + "::handlers"))) else None
        if base and go.must_pass(bs, keep=go.projector(nonempty)):
            rs = returns(of)
            okr = all((isinstance(skip_copies(r.get("e")), dict) and (skip_copies(r["e"]).get("k") == "bool" and skip_copies(r["e"]).get("v") or skip_copies(r["e"]).get("fn") in verified)) for r in rs)
            ck.ob("C01-O9", sitestr(of), True if okr else None, "%s evaluates the handler list on every path (a non-empty list is never skipped)" % short, key="%s|skips-handlers" % short)
            verified.add(oid)
            continue
        # a path leaves without the base implementation: a plain skip (the message is not handed to anything on that path) is definite
        region = go.reach([go.entry], blocked=bs, keep=go.projector(nonempty))
        uses = [n_ for k_ in region for n_ in walk(go.el.get(k_) or {}) if isinstance(n_, dict) and n_.get("k") == "call" and
                any(is_ref_to(skip_copies(a_), mdecl) for a_ in (n_.get("args") or []) if isinstance(a_, dict)) and n_.get("fn") not in verified]
        ck.ob("C01-O9", sitestr(of), False if not uses else None,
              "%s overrides Pipeline::process() and has a path that returns without evaluating a non-empty handler list (the message is not handed to anything on it): the handlers of such a pipeline are objects "
              "of their own (shared with sibling branches, stateful, user-defined) and in-order evaluation runs them" % short if not uses else
              "%s overrides Pipeline::process() and hands the message to %s on a path that does not evaluate the handler list" % (short, describe(uses[0])[:40]), key="%s|skips-handlers" % short)
    ck.ob("C01-O9", sitestr(pp), True, "%d override(s) of Pipeline::process outside OwnThreadHandler" % n_ov, key="Pipeline::process|overrides")
    # ---- O8: the fluent builder adds at the end
    ck.rule("C01-O8", "insertion order = evaluation order: every SimplePipeline builder method adds its handler through Pipeline::append (end of the list), never through a typed / positional insert")
    mutators = set()
    for f_, n_, how_ in field_writes(F, P + "::m_handlers"):
        mutators.add(f_.id)
    changed = True
    while changed:
        changed = False
        for f_ in F.fns.values():
            if f_.id in mutators or f_.cls not in (P, "QtLogger::SortedPipeline"):
                continue
            if any(n_.get("k") == "call" and n_.get("fn") in mutators for n_ in f_.all_nodes()) or \
               any(is_call(n_, P + "::handlers") and not (F.fns.get(n_.get("fn")) and F.fns[n_["fn"]].d.get("constm")) for n_ in f_.all_nodes()):
                mutators.add(f_.id)
                changed = True
    n_builders = 0
    for f_ in sorted((x for x in F.fns.values() if x.cls == SP and x.body is not None and x.d.get("kind") == "method"), key=lambda x: x.sig):
        adds = [n_ for n_ in f_.calls() if n_.get("fn") in mutators and skip_copies(n_.get("obj") or {"k": "this"}).get("k") in ("this", None)]
        if not adds:
            continue
        ck.touch(f_)
        n_builders += 1
        short = f_.name.split("::")[-1]
        bad_ = [n_ for n_ in adds if not name_is(n_.get("callee"), (P + "::append", P + "::operator<<")) and not (short == "pipeline" and name_is(n_.get("callee"), "QtLogger::SortedPipeline::appendPipeline"))]
        ck.ob("C01-O8", sitestr(f_, (bad_ or adds)[0]), not bad_, "%s() appends at the end" % short if not bad_ else
              "%s() adds its handler with %s: it lands in front of handlers added earlier, so `.filter(...).%s(...)` evaluates the new handler before the filter" %
              (short, (bad_[0].get("callee") or "").split("::")[-1], short), key="SimplePipeline::%s|not-at-end" % short)
    ck.require(n_builders >= 22, "only %d SimplePipeline builder methods that add a handler were found (25 in this configuration confirmed by hand)" % n_builders)
    # constructor chain scoped -> m_scoped, parent -> m_parent
    for cls, base in ((SP, "QtLogger::SortedPipeline"), ("QtLogger::SortedPipeline", P)):
        ctors = [f for f in F.fn_all(cls + "::" + cls.split("::")[-1]) if f.d.get("kind") == "ctor" and not f.d.get("copyctor") and not f.d.get("movector") and f.params]
        ck.require(ctors, "constructor of %s not found" % cls)
        for ct in ctors:
            ck.touch(ct)
            bi = [i for i in ct.inits if i.get("base") == base]
            ok = len(bi) == 1 and skip_copies(bi[0]["e"]).get("k") == "construct" and skip_copies(bi[0]["e"]).get("args") and is_ref_to(skip_copies(bi[0]["e"])["args"][0], ct.params[0]["decl"])
            ck.ob("C01-O7", sitestr(ct), ok, "%s forwards `scoped` to %s" % (ct.sig, base), key="%s|ctor-forwards-scoped" % cls)
            if cls == SP:
                mi = [i for i in ct.inits if i.get("member") == SP + "::m_parent"]
                ok = len(mi) == 1 and len(ct.params) > 1 and is_ref_to(mi[0]["e"], ct.params[1]["decl"])
                ck.ob("C01-O7", sitestr(ct), ok, "m_parent(parent)", key="SimplePipeline|ctor-parent")
    en = F.fn(SP + "::end")
    ck.touch(en)
    g = Graph(en)
    isp = lambda n: is_this_field(n, SP + "::m_parent")
    rv = return_values_under(en, g, atom_eq(isp, True))
    ok = bool(rv) and all(is_this_field(unwrap_ptr(v), SP + "::m_parent") for _, v in rv)
    ck.ob("C01-O7", sitestr(en), ok, "end() returns the parent when there is one" if ok else "end() with a parent returns %s" % [describe(v) for _, v in rv], key="SimplePipeline::end|parent")
    rv = return_values_under(en, g, atom_eq(isp, False))
    ok = bool(rv) and all(unwrap_ptr(v).get("k") == "this" for _, v in rv)
    ck.ob("C01-O7", sitestr(en), ok, "end() returns *this at the top level" if ok else "end() without a parent returns %s" % [describe(v) for _, v in rv], key="SimplePipeline::end|top")


def whole_pipeline(ck):
    """C01-O10: a builder operation that is given a pipeline *by value* (`logger << Pipeline({...}, true)`) takes it whole. The scoped flag is
    private to the object: a function that only reads the argument's handler list and re-creates a pipeline from it silently makes a scoped
    sub-pipeline unscoped - its formatted text and attributes leak into the siblings that follow."""
    F = ck.facts
    ck.rule("C01-O10", "a function that receives a Pipeline object by (const) reference or value and passes it on does so as a whole: the same object or a copy made by the "
                       "copy constructor (which copies the scoped flag); it does not rebuild it from handlers()")
    PIPES = (P, "QtLogger::SortedPipeline", "QtLogger::SimplePipeline")

    def pipe_param(p):
        t = (p.get("type") or "").replace("const ", "").replace("&&", "").replace("&", "").strip()
        t = t if t.startswith("QtLogger::") else "QtLogger::" + t
        return t in PIPES
    n_inst = 0
    for f in sorted(F.fns.values(), key=lambda x: x.sig):
        if f.body is None or not in_lib(f.file) or f.d.get("copyctor") or f.d.get("movector") or f.d.get("kind") == "copyassign":
            continue
        for p in f.params:
            if not pipe_param(p) or "*" in (p.get("type") or ""):
                continue
            d = p["decl"]
            whole = [n for n in f.all_nodes() if (n.get("k") == "construct" and strip_tmpl(n.get("class") or "") in PIPES and any(is_ref_to(skip_copies(a), d) for a in n.get("args", []))) or
                     (n.get("k") == "call" and name_is(strip_tmpl(n.get("callee") or ""), "QSharedPointer::create") and any(is_ref_to(skip_copies(a), d) for a in n.get("args", [])))]
            apart = [n for n in f.calls() if name_is(n.get("callee"), P + "::handlers") and is_ref_to(unwrap_ptr(n.get("obj")), d)]
            flag = [n for n in f.all_nodes() if (n.get("k") == "member" and (n.get("name") or "").endswith("::m_scoped") and is_ref_to(unwrap_ptr(n.get("base")), d)) or
                    (n.get("k") == "call" and "scoped" in (n.get("callee") or "").split("::")[-1].lower() and is_ref_to(unwrap_ptr(n.get("obj")), d))]
            if not whole and not apart:
                continue
            n_inst += 1
            ck.touch(f)
            short = strip_tmpl(f.name).replace("QtLogger::", "")
            if apart and not whole:
                ck.ob("C01-O10", sitestr(f, apart[0]), False if not flag else None,
                      "%s re-creates the pipeline it is given from its handler list only: the scoped flag of the argument is lost, so `Pipeline({attr, formatter, sink}, /*scoped*/ true)` handed over this way "
                      "leaks its formatted text and attributes into the handlers that follow" % short if not flag else
                      "%s takes the argument apart (handlers() and the scoped flag separately)" % short, key="%s|pipeline-by-value" % short)
            else:
                ck.ob("C01-O10", sitestr(f, whole[0]), True, "%s hands the pipeline on as a copy of the whole object" % short, key="%s|pipeline-by-value" % short)
    # the copy itself: implicit / defaulted, or copying both members
    cc = [f for f in F.fn_all(P + "::Pipeline") if f.d.get("copyctor") and f.body is not None and not f.d.get("implicit") and not f.d.get("defaulted")]
    for c in cc:
        got = {i["member"].split("::")[-1] for i in c.inits if i.get("member") and i.get("written")}
        ck.ob("C01-O10", sitestr(c), {"m_handlers", "m_scoped"} <= got, "Pipeline's copy constructor copies the handler list and the scoped flag" if {"m_handlers", "m_scoped"} <= got else
              "Pipeline's user-written copy constructor leaves out %s" % sorted({"m_handlers", "m_scoped"} - got), key="Pipeline(copy)|members")
    ck.require(n_inst >= 1, "no function receiving a Pipeline by value found (operator<<(Logger *, const Pipeline &) confirmed by hand)")


def handoff_leaves_message(ck):
    """C01-O11: OwnThreadHandler can be an inner node of a tree (docs/api/pipelines.md): the handlers behind it in the parent pipeline go on with the same
    message object. Handing the message to the logger thread must therefore copy it; moving from it leaves the caller's message without its
    formatted text and attributes, and a sink that follows prints the raw message."""
    F = ck.facts
    ck.rule("C01-O11", "OwnThreadHandler::process does not move from (or otherwise modify) the message it is given: the asynchronous hand-off works on a copy")
    insts = [f for f in F.fn_all("QtLogger::OwnThreadHandler::process") if f.body is not None]
    ck.require(insts, "OwnThreadHandler::process not found")
    for f in insts:
        ck.touch(f)
        if not f.params:
            continue
        d = f.params[0]["decl"]
        moved = [c for c in f.calls() if strip_tmpl(c.get("callee") or "") in ("std::move", "std::forward", "std::exchange", "std::swap", "qSwap", "qExchange") and any(is_ref_to(skip_copies(a), d) for a in c.get("args", []))]
        mutated = [c for c in f.calls() if c.get("ck") == "member" and is_ref_to(skip_copies(c.get("obj") or {}), d) and
                   strip_tmpl(c.get("callee") or "").split("::")[-1] in ("setFormattedMessage", "setAttributes", "updateAttributes", "setAttribute", "removeAttribute", "swap", "clear")]
        tag = strip_tmpl(f.cls or "").split("::")[-1] + ("<" + (f.cls or "").split("<", 1)[1].rstrip(">").split("::")[-1] + ">" if "<" in (f.cls or "") else "")
        bad = moved + mutated
        ck.ob("C01-O11", sitestr(f, bad[0]) if bad else sitestr(f), not bad, "%s::process leaves the caller's message untouched (the event carries a copy)" % tag if not bad else
              "%s::process hands the caller's message over with %s: the message the parent pipeline goes on with has lost its formatted text and attributes, a sink behind this handler prints the raw message" %
              (tag, describe(bad[0])[:50]), key="OwnThreadHandler::process|message-moved")
