"""C12 — pattern mini-language; values verbatim: the structural clauses (DESIGN.md section 3, C12)."""
import os
import re

from engine.util import *
from engine.extract import REPO

LEVEL = "other"
MIN_OBLIGATIONS = 30
THOROUGH_CONFIGS = ("headeronly",)
TECHNIQUE = "effect rule on the output buffer (no content-based edit or decision once values are in it), writer/reader table agreement (documented placeholders vs the tokeniser's literal set), value-path rule per token class (accessor -> allowed conversions -> applyPadding -> append, exactly once), finite tables of the format spec; statelessness rule on the token classes (no mutable member, local static or const-method write); scope rule for the remove-after count (taken after each appended token, from no hidden token); applyPadding tabulated by cases (588 specifications x values) through engine/conc.py; placeholder text reaches the dispatch intact; LogMessage keeps the text it is given; a literal run ended by an escape-blind search for \"%{\" with bulk escape resolution; the result buffer of format() is non-null on every path"
LEVEL_TEXT = ("Output equality for all patterns x values is run-time and not decided. Decided for all patterns and values: the buffer that receives message/attribute values is never edited or "
              "inspected by content afterwards (no in-band control characters), the set of placeholders the tokeniser dispatches on equals the documented set (including the conditionals and the time "
              "keywords), every value token appends applyPadding(value) exactly once with the value taken from the message accessor through lossless conversions only, literals are appended unchanged, "
              "and the alignment / truncation / centre-padding / fill tables match the documentation.")
LEVEL_NOTE = "trusts QString::append/left/right/mid and QString::number; the index arithmetic of parsePattern over arbitrary pattern text is not decided here (see C14)"
DESIGN_REF = "DESIGN.md section 3, C12"
EXPLANATION = ("Rules over the token classes of patternformatter.cpp (anonymous namespace), PatternFormatterPrivate::parsePattern/format, FormattedToken::applyPadding/charToAlignment "
               "and the Markdown tables of docs/api/formatters.md.")
TRUSTED = ["QString(const char*) / QString::fromLatin1 / QString::number / QVariant::toString are lossless for the value domains of the property"]
ASSUMPTIONS = ["category/file/function are printable ASCII (as in the property)"]
NOT_DECIDED = ["output equality for concrete pattern x value pairs", "tokenisation of malformed patterns (index arithmetic)", "%{func} clean-up and %{shortfile} are documented transformations, not verbatim"]

VERBATIM = {"MessageToken": "QtLogger::LogMessage::message", "CategoryToken": "QtLogger::LogMessage::category", "FileToken": "QtLogger::LogMessage::file"}
NUMERIC = {"LineToken": "QtLogger::LogMessage::line", "ThreadIdToken": "QtLogger::LogMessage::threadId", "QThreadPtrToken": "QtLogger::LogMessage::qthreadptr"}
OTHER_TOKENS = ("TypeToken", "ShortFileToken", "FunctionToken", "TimeToken", "AttributeToken")
CONTENT_CALLS = ("at", "operator[]", "endsWith", "startsWith", "contains", "indexOf", "lastIndexOf", "remove", "replace", "back", "front", "count", "compare", "trimmed", "simplified", "truncate", "insert", "prepend", "clear", "resize", "fill")
ALLOWED_BUFFER_CALLS = ("append", "operator+=", "push_back", "reserve", "size", "length", "chop", "isEmpty", "capacity", "squeeze")


def doc_placeholders():
    p = os.path.join(REPO, "docs", "api", "formatters.md")
    if not os.path.exists(p):
        return None
    txt = open(p, errors="replace").read()
    out = {"basic": set(), "time": set(), "cond": set(), "escape": False}
    m = re.search(r"### Basic Placeholders(.*?)\n###", txt, re.S)
    if m:
        for ph in re.findall(r"^\|\s*`%\{([^}`]+)\}`", m.group(1), re.M):
            out["basic"].add(ph.split()[0])
    m = re.search(r"### Time Placeholders(.*?)\n####", txt, re.S)
    if m:
        for ph in re.findall(r"^\|\s*`%\{([^}`]+)\}`", m.group(1), re.M):
            w = ph.split()
            out["basic"].add(w[0])
            if len(w) > 1 and w[1].islower():
                out["time"].add(w[1])
    for ph in re.findall(r"`%\{(if-\w+|endif)\}`", txt):
        out["cond"].add(ph)
    out["escape"] = bool(re.search(r"\*\*Escape\*\*\s*\|\s*`%%`", txt))
    return out


def run(ck):
    F = ck.facts
    ck.rule("C12-O1", "no in-band control characters: once values are in the output buffer it is only appended to (and chopped by a pattern-given count); no content-based edit, inspection or final clean-up")
    ck.rule("C12-O2", "the placeholders the tokeniser dispatches on = the documented placeholders; if-<type> resolves through stringToQtMsgType whose keys are the five documented types; %% yields one %")
    ck.rule("C12-O3", "every value token appends applyPadding(value) exactly once; the value comes from the message accessor through lossless conversions; literals are appended unchanged")
    ck.rule("C12-O4", "format spec: < > ^ map to Left/Right/Center; truncation keeps the right end for Right else the left end; centre padding floor(p/2) left, rest right; fill defaults to space; Left pads after, Right pads before")
    buffer_rules(ck)
    placeholder_tables(ck)
    value_paths(ck)
    spec_tables(ck)
    spec_precedence(ck)
    literal_path(ck)
    stateless_tokens(ck)
    placeholder_text_intact(ck)
    ck.rule("C12-O9", "a pattern that expands to nothing yields the empty text: the result of format() is non-null on every path (a null result counts as 'unformatted' and the sinks print the raw message)")
    result_never_null(ck)
    ck.rule("C12-O7", "message text is inserted verbatim: LogMessage keeps the text it is given")
    from rules.oth import message_text_intact
    message_text_intact(ck, ck.facts, "C12-O7", "%{message} prints another text than the one that was logged")


def token_fns(F, method):
    out = {}
    for f in F.fns.values():
        if f.name.endswith("::" + method) and "(anonymous namespace)" in f.name and f.file.endswith("patternformatter.cpp") or (f.name.endswith("::" + method) and f.file.endswith("qtlogger.h") and "Token" in f.name):
            cls = f.name.split("::")[-2]
            out[cls] = f
    return out


def buffer_rules(ck):
    F = ck.facts
    fm = F.fn("PatternFormatterPrivate::format")
    ck.touch(fm)
    rs = [r for r in returns(fm) if skip_copies(r.get("e")).get("k") == "ref"]
    ck.require(len(rs) == 1, "format(): result variable not found")
    rdecl = skip_copies(rs[0]["e"])["decl"]
    n_uses = 0
    for r in refs_to(fm, rdecl):
        p = fm.nodes.get(fm.parent.get(r["id"]))
        if p is None or p.get("k") == "return":
            continue
        n_uses += 1
        if p.get("k") == "call" and p.get("ck") == "member" and skip_copies(p.get("obj")).get("id") == r["id"]:
            nm = (p.get("callee") or "").split("::")[-1]
            if nm in CONTENT_CALLS:
                ck.ob("C12-O1", sitestr(fm, p), False, "format() edits the finished text by content: %s — characters of message/attribute values equal to the marker are lost" % describe(p)[:80], key="format|content-edit|%s" % nm)
            elif nm not in ALLOWED_BUFFER_CALLS:
                ck.ob("C12-O1", sitestr(fm, p), None, "format(): unrecognised operation on the result buffer: %s" % describe(p)[:80])
        elif p.get("k") == "call" and any(skip_copies(a).get("id") == r["id"] for a in p.get("args", [])):
            ok = name_is(p.get("callee"), ("appendToString", "appendSkipping"))
            if not ok:
                ck.ob("C12-O1", sitestr(fm, p), None, "format(): the result buffer is passed to %s" % p.get("callee"))
    ck.ob("C12-O1", sitestr(fm), True, "format(): %d uses of the result buffer — reserve, token appends, return" % n_uses)
    toks = {}
    for m in ("appendToString", "appendSkipping"):
        for cls, f in token_fns(F, m).items():
            toks[(cls, m)] = f
    ck.require(len(toks) >= 12, "fewer token append functions than confirmed by hand (%d < 12)" % len(toks))
    for (cls, m), f in sorted(toks.items()):
        ck.touch(f)
        if len(f.params) < 2:
            continue
        ddecl = f.params[1]["decl"]
        bad = None
        for r in refs_to(f, ddecl):
            p = f.nodes.get(f.parent.get(r["id"]))
            if p is None:
                continue
            if p.get("k") == "call" and p.get("ck") == "member" and skip_copies(p.get("obj")).get("id") == r["id"]:
                nm = (p.get("callee") or "").split("::")[-1]
                if nm in CONTENT_CALLS:
                    bad = (p, nm)
                    break
                if nm not in ALLOWED_BUFFER_CALLS:
                    ck.ob("C12-O1", sitestr(f, p), None, "%s::%s: unrecognised operation on the output buffer: %s" % (cls, m, describe(p)[:60]))
            elif p.get("k") == "call" and name_is(p.get("callee"), ("appendToString", "appendSkipping")):
                pass
            elif p.get("k") in ("call", "binop", "construct"):
                ck.ob("C12-O1", sitestr(f, p), None, "%s::%s: the output buffer escapes into %s" % (cls, m, describe(p)[:60]))
        if bad:
            ck.ob("C12-O1", sitestr(f, bad[0]), False, "%s::%s looks at / edits the text already in the buffer (%s): a value ending in that character is taken for pattern machinery" % (cls, m, describe(bad[0])[:60]),
                  key="%s::%s|content-decision|%s" % (cls, m, bad[1]))
        else:
            ck.ob("C12-O1", sitestr(f), True, "%s::%s only appends to (or chops a pattern-given count from) the buffer" % (cls, m))
    # no character constant doubles as a marker
    for gl in F.globals.values():
        if gl["file"].endswith(("patternformatter.cpp",)) and gl["type"] in ("const QChar", "QChar", "const QString", "const char16_t", "const ushort"):
            ck.ob("C12-O1", "%s:%d (%s)" % (gl["file"].split("/src/")[-1], gl["line"], gl["name"].split("::")[-1]), None, "a global character constant %s exists in the formatter; check it is not an in-band marker" % gl["name"])


def placeholder_tables(ck):
    F = ck.facts
    pp = F.fn("PatternFormatterPrivate::parsePattern")
    ck.touch(pp)
    docs = doc_placeholders()
    ck.require(docs is not None and len(docs["basic"]) >= 10, "placeholder tables not found in docs/api/formatters.md")
    # literals compared with the local `placeholder`
    phv = [v for n in pp.find(lambda n: n.get("k") == "decl") for v in n.get("vars", []) if v.get("name") == "placeholder" or (isinstance(v.get("init"), dict) and is_call(v["init"], "QString::mid") and v.get("type") == "QString" and v.get("name", "").startswith("placeholder"))]
    ck.require(len(phv) >= 1, "parsePattern: placeholder local not found")
    pdecl = phv[0]["decl"]
    exact, prefixes = set(), set()

    def is_ph(x):
        # the placeholder text itself, or a parameter of a spliced helper that was passed it
        return is_ref_to(x, pdecl) or is_ref_to(deref_local(pp, x), pdecl)

    def table_names(y):
        """names of a constant lookup table when y is `<loop variable over the table>.name`"""
        for m_ in walk(y):
            if m_.get("k") == "member" and m_.get("dk") == "field":
                b_ = skip_copies(m_.get("base"))
                if b_.get("k") == "ref":
                    for lp in enclosing_loops(pp, m_):
                        if lp.get("k") == "rangefor" and lp.get("var", {}).get("decl") == b_.get("decl"):
                            rng = skip_copies(lp.get("range"))
                            gv = F.globals.get(rng.get("decl")) if rng.get("k") == "ref" else None
                            init = gv.get("init") if gv else None
                            if init is None and rng.get("k") == "ref":
                                _, lv_ = local_var(pp, rng.get("decl"))
                                init = lv_.get("init") if lv_ else None
                            if isinstance(init, dict):
                                rows = skip_copies(init).get("els") or []
                                names = []
                                for r_ in rows:
                                    r_ = skip_copies(r_)
                                    cells = r_.get("els") or r_.get("args") or []
                                    strs = [const_str(c_) for c_ in cells if const_str(c_) is not None]
                                    if len(strs) == 1:
                                        names.append(strs[0])
                                if names and len(names) == len(rows):
                                    return names
        return None
    for n in pp.calls():
        if n.get("op") == "==" and len(n.get("args", [])) == 2:
            a, b = n["args"]
            for x, y in ((a, b), (b, a)):
                if is_ph(x) and const_str(y) is not None:
                    exact.add(const_str(y))
                elif is_ph(x):
                    tn = table_names(y)
                    if tn:
                        exact.update(tn)
        if is_call(n, "QString::startsWith") and is_ref_to(skip_copies(n).get("obj"), pdecl) and n.get("args") and const_str(n["args"][0]) is not None:
            prefixes.add(const_str(n["args"][0]))
    code_basic = {e for e in exact if e != "endif"} | {p.strip() for p in prefixes if p.strip() and not p.startswith("if-")}
    doc_basic = set(docs["basic"])
    missing = sorted(doc_basic - code_basic)
    extra = sorted(code_basic - doc_basic)
    ck.ob("C12-O2", sitestr(pp), not missing, "every documented placeholder is recognised by the tokeniser: %s" % sorted(doc_basic) if not missing else
          "documented placeholders the tokeniser does not know (they fall through to 'custom attribute' and print %%{name}): %s" % missing, key="parsePattern|undispatched|%s" % ",".join(missing))
    ck.ob("C12-O2", sitestr(pp), not extra, "the tokeniser knows no undocumented placeholder" if not extra else "undocumented placeholders shadow attribute names: %s" % extra, key="parsePattern|undocumented|%s" % ",".join(extra))
    okcond = "if-" in prefixes and "endif" in exact
    ck.ob("C12-O2", sitestr(pp), okcond, "conditionals: 'if-' prefix and 'endif' are dispatched", key="parsePattern|conditionals")
    st = F.fn("QtLogger::stringToQtMsgType")
    keys = {const_str(k) for k, v in initlist_pairs((st.find(lambda n: n.get("k") == "decl") or [{}])[0].get("vars", [{}])[0].get("init"))}
    want = {c[3:] for c in docs["cond"] if c.startswith("if-")}
    if not keys:
        # no constant table (an if-chain, a switch over hashes): the function is evaluated for the documented names instead
        from rules.oth import msgtype_tables_by_cases
        tn, tt = msgtype_tables_by_cases(F)
        if tt is None or tn is None:
            ck.ob("C12-O2", sitestr(st), None, "stringToQtMsgType is neither a constant table nor evaluable by cases", key="stringToQtMsgType|keys")
            keys = set(want)
        else:
            keys = {name for name, v in tt.items() if tn.get(v) == name}
    ck.ob("C12-O2", sitestr(st), want <= keys and len(want) >= 5, "if-<type> names %s are all keys of stringToQtMsgType" % sorted(want) if want <= keys else "documented conditional types %s missing from stringToQtMsgType %s" % (sorted(want - keys), sorted(keys)),
          key="parsePattern|condition-types")
    ifcalls = [n for n in pp.calls("QtLogger::stringToQtMsgType")]
    ck.ob("C12-O2", sitestr(pp), len(ifcalls) == 1, "the condition type is resolved through stringToQtMsgType", key="parsePattern|condition-resolver")
    # time keywords
    tt = token_fns(F, "appendToString").get("TimeToken")
    if tt is not None:
        kws = set()
        # wherever the class decides what the text after "time" means: appendToString, the constructor, a classifying helper
        for tf in [f_ for f_ in F.fns.values() if f_.cls and f_.cls == tt.cls and f_.body is not None] + [tt]:
            for n in tf.calls():
                if n.get("op") == "==" and len(n.get("args", [])) == 2:
                    for y in n["args"]:
                        if const_str(y) is not None:
                            kws.add(const_str(y))
        ck.ob("C12-O2", sitestr(tt), docs["time"] <= kws, "time keywords %s are handled" % sorted(docs["time"]) if docs["time"] <= kws else "documented time keywords not handled: %s" % sorted(docs["time"] - kws), key="TimeToken|keywords")
        # "time process" = seconds since process start: the reference point the message's steady time is measured from is fixed when the program (the
        # library) is loaded - a namespace-scope object initialised from the clock - not whenever the first formatter / first message happens to need it
        ck.rule("C12-O8", "%{time process}: the reference point subtracted from the message's steady time is a namespace-scope object initialised from the clock at load time, not a function-local static initialised on first use")
        subs = []
        for x in tt.all_nodes():
            a_ = None
            if x.get("k") == "call" and x.get("ck") == "operator" and x.get("op") == "-" and len(x.get("args", [])) == 2:
                a_ = x["args"]
            elif x.get("k") == "binop" and x.get("op") == "-":
                a_ = [x.get("lhs"), x.get("rhs")]
            if a_ and is_call(deref_local(tt, a_[0]), "QtLogger::LogMessage::steadyTime"):
                subs.append((x, skip_copies(deref_local(tt, a_[1]))))
        gdecl = {gv["decl"]: gv for gv in F.globals.values()}
        for x, r in subs:
            if isinstance(r, dict) and r.get("k") == "ref" and r.get("decl") in gdecl:
                gv = gdecl[r["decl"]]
                ck.ob("C12-O8", sitestr(tt, x), not gv.get("staticlocal"), "%s is a namespace-scope object (initialised when the program is loaded)" % gv.get("name") if not gv.get("staticlocal") else
                      "%s is a function-local static: it is initialised on first use, so the time printed counts from that moment" % gv.get("name"), key="TimeToken|process-reference")
            elif isinstance(r, dict) and r.get("k") == "call" and F.fns.get(r.get("fn")) is not None and F.fns[r["fn"]].body is not None:
                h = F.fns[r["fn"]]
                rets = [skip_copies(deref_local(h, y.get("e"))) for y in returns(h)]
                lazy = [y for y in rets if isinstance(y, dict) and y.get("k") == "ref" and (gdecl.get(y.get("decl")) or {}).get("staticlocal")]
                eager = [y for y in rets if isinstance(y, dict) and y.get("k") == "ref" and y.get("decl") in gdecl and not gdecl[y["decl"]].get("staticlocal")]
                if lazy:
                    ck.ob("C12-O8", sitestr(tt, x), False, "the reference point of %%{time process} is the function-local static of %s(): it is initialised on first use (when the first formatter with this placeholder is set up, "
                          "or the first message is formatted), so the time printed counts from that moment and a message older than it gets a negative time - the documented value is seconds since process start" % strip_tmpl(h.name).split("::")[-1],
                          key="TimeToken|process-reference")
                elif eager and len(eager) == len(rets):
                    ck.ob("C12-O8", sitestr(tt, x), True, "the reference point comes from a namespace-scope object", key="TimeToken|process-reference")
                else:
                    ck.ob("C12-O8", sitestr(tt, x), None if not (is_call(r, ("std::chrono::steady_clock::time_point::time_since_epoch", "time_since_epoch"))) else True, "reference point %s" % describe(r)[:40], key="TimeToken|process-reference")
    # %% escape: an append of '%' whose position advance is 2
    g = Graph(pp)
    pct = [n for n in pp.calls() if n.get("ck") == "member" and name_is(n.get("callee"), ("append", "operator+=")) and n.get("args") and (const_str(n["args"][0]) == "%" or const_int(n["args"][0]) == 37)]
    adv2 = [n for n in pp.find(lambda n: n.get("k") == "binop" and n.get("op") == "+=" and const_int(n.get("rhs")) == 2)]
    okesc = docs["escape"] and any(g.dominated(g.site_of(a), {g.site_of(p)}) or g.dominated(g.site_of(p), {g.site_of(a)}) for a in adv2 for p in pct if g.site_of(a) and g.site_of(p) and g.site_of(a)[0] == g.site_of(p)[0])
    ck.ob("C12-O2", sitestr(pp), okesc, "'%%' appends a single '%' and consumes both characters" if okesc else "the %% escape is not handled as documented", key="parsePattern|escape")


def value_paths(ck):
    F = ck.facts
    toks = token_fns(F, "appendToString")
    for cls in list(VERBATIM) + list(NUMERIC) + list(OTHER_TOKENS):
        f = toks.get(cls)
        if f is None:
            ck.ob("C12-O3", "patternformatter.cpp (%s)" % cls, None, "%s::appendToString not found" % cls)
            continue
        g = Graph(f)
        ddecl = f.params[1]["decl"]
        apps = [n for n in f.calls() if n.get("ck") == "member" and is_ref_to(n.get("obj"), ddecl) and name_is(n.get("callee"), ("append", "operator+=", "push_back"))]
        padded = [n for n in apps if n.get("args") and is_call(n["args"][0], "applyPadding")]
        raw = [n for n in apps if n not in padded]
        if raw:
            ck.ob("C12-O3", sitestr(f, raw[0]), False, "%s appends %s without applyPadding(): the format spec is ignored for it" % (cls, describe(raw[0]["args"][0])[:50]), key="%s|unpadded" % cls)
        if not padded:
            ck.ob("C12-O3", sitestr(f), False, "%s appends nothing" % cls, key="%s|no-append" % cls)
            continue
        sites = set(g.sites_of_nodes(padded))
        if cls == "AttributeToken":
            hasattr_ = lambda n: is_call(n, "QtLogger::LogMessage::hasAttribute") and obj_is_param(skip_copies(n), f, 0)
            isopt = lambda n: is_this_field(n, "AttributeToken::m_optional") or (n.get("k") == "member" and (n.get("name") or "").endswith("AttributeToken::m_optional"))
            for nm, at, want in (("present", atoms((hasattr_, True)), 1), ("absent and mandatory", atoms((hasattr_, False), (isopt, False)), 1), ("absent and optional", atoms((hasattr_, False), (isopt, True)), 0)):
                keep = g.projector(at)
                live = sites & g.live(keep)
                once = (len(live) == 1 and g.must_pass(live, keep=keep)) if want else not live
                ck.ob("C12-O3", sitestr(f), once, "attribute %s: %s" % (nm, "one padded append" if want else "nothing appended") if once else "attribute %s: %d padded appends reachable" % (nm, len(live)), key="AttributeToken|%s" % nm.split()[0])
            keep = g.projector(atoms((hasattr_, True)))
            pres = [n for n in padded if g.site_of(n) in g.live(keep)]
            if pres:
                v = skip_copies(skip_copies(pres[0]["args"][0])["args"][0])
                ok = is_call(v, "QVariant::toString") and is_call(v.get("obj"), "QtLogger::LogMessage::attribute") and not lossy_wrappers(v)
                ck.ob("C12-O3", sitestr(f, pres[0]), ok, "attribute value = lmsg.attribute(name).toString(), unedited" if ok else "attribute value is %s" % describe(v)[:80], key="AttributeToken|value")
            continue
        once = g.must_pass(sites) and all(not g.in_cycle(s) for s in sites) and len([s for s in sites]) >= 1
        exactly = all(not g.can_reach(a, b) for a in sites for b in sites if a != b)
        ck.ob("C12-O3", sitestr(f), once and exactly, "%s appends applyPadding(value) exactly once on every path" % cls if (once and exactly) else "%s: the padded append is conditional or repeated" % cls, key="%s|append-once" % cls)
        v = deref_local(f, skip_copies(padded[0]["args"][0])["args"][0])
        if cls in VERBATIM:
            src = v
            while isinstance(src, dict) and src.get("k") == "construct" and src.get("class") == "QString" and len(src.get("args", [])) == 1:
                src = skip_copies(src["args"][0])
            while is_call(src, ("QString::fromLatin1", "QString::fromUtf8", "QString::fromLocal8Bit")):
                src = skip_copies(src["args"][0])
            ok = is_call(src, VERBATIM[cls]) and obj_is_param(skip_copies(src), f, 0) and not lossy_wrappers(v)
            ck.ob("C12-O3", sitestr(f, padded[0]), ok, "%s: value = %s(), verbatim" % (cls, VERBATIM[cls].split("::")[-1]) if ok else
                  "%s: value is %s%s" % (cls, describe(v)[:70], " (altered by %s)" % lossy_wrappers(v) if lossy_wrappers(v) else ""), key="%s|value" % cls)
        elif cls in NUMERIC:
            acc = [x for x in walk(v) if is_call(x, NUMERIC[cls]) and obj_is_param(skip_copies(x), f, 0)]
            num = [x for x in walk(v) if is_call(x, "QString::number")]
            ok = len(acc) == 1 and len(num) == 1 and not lossy_wrappers(v)
            ck.ob("C12-O3", sitestr(f, padded[0]), ok, "%s: value = QString::number(%s())" % (cls, NUMERIC[cls].split("::")[-1]) if ok else "%s: value is %s" % (cls, describe(v)[:70]), key="%s|value" % cls)
        elif cls == "TypeToken":
            ok = is_call(v, "QtLogger::qtMsgTypeToString") and is_call(v["args"][0], "QtLogger::LogMessage::type")
            ck.ob("C12-O3", sitestr(f, padded[0]), ok, "TypeToken: value = qtMsgTypeToString(type())" if ok else "TypeToken: value is %s" % describe(v)[:70], key="TypeToken|value")
        elif cls == "FunctionToken":
            isclean = lambda n: n.get("k") == "member" and (n.get("name") or "").endswith("FunctionToken::m_cleanup")
            asg = [(a, r) for rf in refs_to(f, skip_copies(skip_copies(padded[0]["args"][0])["args"][0]).get("decl")) for a, r in [assignment_target(f, rf)] if a is not None]
            raw_ok = False
            for a, r in asg:
                if g.site_of(a) in g.live(g.projector(atom_eq(isclean, False))) and g.site_of(a) not in g.live(g.projector(atom_eq(isclean, True))):
                    src = skip_copies(r)
                    while is_call(src, ("QString::fromLatin1", "QString::fromUtf8")):
                        src = skip_copies(src["args"][0])
                    raw_ok = is_call(src, "QtLogger::LogMessage::function") and not lossy_wrappers(r)
            ck.ob("C12-O3", sitestr(f), raw_ok, "%{function}: value = function(), verbatim (the clean-up applies to %{func} only)" if raw_ok else "%{function} is not the verbatim function()", key="FunctionToken|raw-value")
    # literals
    lt = toks.get("LiteralToken")
    if lt is not None:
        apps = [n for n in lt.calls() if n.get("ck") == "member" and name_is(n.get("callee"), ("append", "operator+=")) and is_ref_to(n.get("obj"), lt.params[1]["decl"])]
        ok = len(apps) == 1 and (skip_copies(apps[0]["args"][0]).get("k") == "member" and (skip_copies(apps[0]["args"][0]).get("name") or "").endswith("LiteralToken::m_text")) and Graph(lt).must_pass({Graph(lt).site_of(apps[0])})
        ck.ob("C12-O3", sitestr(lt), ok, "literal pattern text is appended unchanged" if ok else "LiteralToken::appendToString does not append m_text unchanged on every path", key="LiteralToken|verbatim")
    ls = token_fns(F, "appendSkipping").get("LiteralToken")
    if ls is not None:
        g = Graph(ls)
        sk = ls.params[2]["decl"]
        apps = [n for n in ls.calls() if n.get("ck") == "member" and name_is(n.get("callee"), ("append", "operator+=")) and is_ref_to(n.get("obj"), ls.params[1]["decl"])]
        ok = len(apps) == 1 and is_call(apps[0]["args"][0], "QString::mid") and is_ref_to(skip_copies(apps[0]["args"][0])["args"][0], sk)
        if ok:
            def leaf(n, s=None):
                return None
            res = {}
            for skip, ln in ((0, 3), (1, 3), (3, 3), (5, 3)):
                def leaf(n, skip=skip, ln=ln):
                    if is_ref_to(n, sk):
                        return skip
                    if is_call(n, ("QString::size", "QString::length")):
                        return ln
                    return None
                res[(skip, ln)] = g.site_of(apps[0]) in g.live(g.projector(numeric_atom(ls, leaf)))
            ok = res == {(0, 3): True, (1, 3): True, (3, 3): False, (5, 3): False}
        ck.ob("C12-O3", sitestr(ls), ok, "after an absent optional attribute the literal drops exactly the requested leading characters (nothing if the count covers it)" if ok else "LiteralToken::appendSkipping deviates", key="LiteralToken|skipping")
    # format(): the skip count of a token is handed to the next appended token only
    fm = F.fn("PatternFormatterPrivate::format")
    g = Graph(fm)
    sk = [n for n in fm.calls() if name_is(n.get("callee"), "appendSkipping")]
    ap = [n for n in fm.calls() if name_is(n.get("callee"), "appendToString")]
    ra = [n for n in fm.calls() if name_is(n.get("callee"), "removeAfter")]
    ok = len(sk) == 1 and len(ap) <= 1 and len(ra) == 1
    if ok and not ap:
        # every token goes through appendSkipping(lmsg, dest, skip): for tokens that do not override it the base implementation must be
        # a plain appendToString
        base_sk = [f_ for f_ in F.fns.values() if f_.name.endswith("::Token::appendSkipping") and f_.body is not None]
        ok = len(base_sk) == 1
        if ok:
            gb = Graph(base_sk[0])
            cs_ = [n for n in base_sk[0].calls() if name_is(n.get("callee"), "appendToString")]
            ok = len(cs_) == 1 and gb.must_pass({gb.site_of(cs_[0])})
    if ok:
        # exactly one of the two appends per token whose condition holds
        chk = [n for n in fm.calls() if name_is(n.get("callee"), "checkCondition") and any(a.get("id") == [l for l in find_loops(fm)][-1]["id"] for a in fm.ancestors(n))]
        okc = len(chk) == 1
        if okc:
            keep_t = g.projector(atom_eq(value_pred(fm, chk[0]), True))
            keep_f = g.projector(atom_eq(value_pred(fm, chk[0]), False))
            cs = g.site_of(chk[0])
            both = {g.site_of(x_) for x_ in sk + ap}
            a = g.postdominated(cs, both, keep=keep_t)
            b = not (both & g.reach([cs], blocked={g.site_of(find_loops(fm)[-1]["desugar"]["cond"])}, keep=keep_f, include_start=False))
            ok = a and b
            # the remove-after count belongs to the token that was appended: it is recomputed after every appended token and by no token
            # whose condition does not hold (a hidden token neither sets nor clears it)
            lc = g.site_of(find_loops(fm)[-1]["desugar"]["cond"])
            rs_ = g.site_of(ra[0])
            hidden_sets = rs_ in g.reach([cs], blocked={lc}, keep=keep_f, include_start=False)
            always_after = g.postdominated(cs, {rs_}, keep=keep_t)
            before_append = bool((both - {rs_}) & g.reach([rs_], blocked={lc}, include_start=False))
            oks = (not hidden_sets) and always_after and not before_append
            ck.ob("C12-O3", sitestr(fm, ra[0]), oks, "format(): the remove-after count is taken from each appended token, after its append, and from no hidden token" if oks else
                  "format(): removeAfter() %s" % ("is evaluated for tokens whose condition does not hold: a hidden optional attribute eats the start of the next literal, a hidden token clears a pending count" if hidden_sets else
                                                  "is not evaluated after every appended token" if not always_after else "is evaluated before the token is appended"),
                  key="format|skip-scope")
    ck.ob("C12-O3", sitestr(fm), ok, "format(): each token whose condition matches is appended once, in order; others are skipped" if ok else "format(): token append structure not as expected", key="format|token-loop")


def spec_tables(ck):
    F = ck.facts
    ca = F.fn("FormattedToken::charToAlignment")
    ck.touch(ca)
    sws = ca.find(lambda n: n.get("k") == "switch")
    ck.require(len(sws) == 1, "charToAlignment is no longer a switch")
    tab = switch_table(ca, sws[0])
    got = {}
    for ch in "<>^":
        leaf = tab.get(ord(ch), tab.get("default"))
        got[ch] = (skip_copies(leaf).get("name") or "").split("::")[-1] if isinstance(leaf, dict) else None
    dflt = tab.get("default")
    got["other"] = (skip_copies(dflt).get("name") or "").split("::")[-1] if isinstance(dflt, dict) else None
    want = {"<": "Left", ">": "Right", "^": "Center", "other": "None"}
    ck.ob("C12-O4", sitestr(ca), got == want, "alignment characters: %s" % got if got == want else "alignment table %s differs from %s" % (got, want), key="charToAlignment|table")
    ap = F.fn("FormattedToken::applyPadding")
    ck.touch(ap)
    g = Graph(ap)
    en = None
    for e in F.enums.values():
        if e["name"].endswith("FormattedToken::Alignment"):
            en = {x["name"]: x["value"] for x in e["enumerators"]}
    ck.require(en is not None, "enum Alignment not found")
    isalign = lambda n: n.get("k") == "member" and (n.get("name") or "").endswith("FormatSpec::align")
    if padding_table(ck, F, en):
        default_fill(ck, F)
        return
    cuts = [n for n in ap.calls(("QString::left", "QString::right", "QString::mid", "QString::chopped"))]
    ck.require(len(cuts) >= 4, "applyPadding: truncation calls not found")
    for nm, val in (("Right", en["Right"]), ("Left", en["Left"]), ("Center", en["Center"])):
        def atom(n, val=val):
            if n.get("k") == "binop" and n.get("op") in ("==", "!=") and (isalign(skip_copies(n.get("lhs"))) or isalign(skip_copies(n.get("rhs")))):
                k = const_int(n.get("rhs")) if isalign(skip_copies(n.get("lhs"))) else const_int(n.get("lhs"))
                if k is None:
                    return None
                return (val == k) if n["op"] == "==" else (val != k)
            return None
        live = g.live(g.projector(atom))
        kinds = {(c.get("callee") or "").split("::")[-1] for c in cuts if g.site_of(c) in live}
        want = {"right"} if nm == "Right" else {"left"}
        ck.ob("C12-O4", sitestr(ap), kinds == want, "truncation with %s alignment keeps the %s end" % (nm, "right" if nm == "Right" else "left") if kinds == want else "truncation with %s alignment uses %s" % (nm, sorted(kinds)), key="applyPadding|truncate-%s" % nm)
    for c in cuts:
        okw = c.get("args") and skip_copies(c["args"][0]).get("k") == "member" and (skip_copies(c["args"][0]).get("name") or "").endswith("FormatSpec::width")
        if not okw:
            ck.ob("C12-O4", sitestr(ap, c), False, "truncation to %s instead of the width" % describe(c["args"][0] if c.get("args") else None), key="applyPadding|truncate-length")
    # the padding switch
    sws = [s for s in ap.find(lambda n: n.get("k") == "switch") if isalign(skip_copies(s.get("cond")))]
    ck.require(len(sws) == 1, "applyPadding: switch on the alignment not found")
    body = sws[0]["body"]["body"]
    arms = {}
    cur = None
    for st in body:
        while isinstance(st, dict) and st.get("k") in ("case", "default"):
            if st["k"] == "case":
                cur = const_int(st.get("val"))
                arms[cur] = []
            else:
                cur = "default"
                arms[cur] = []
            st = st.get("sub")
        if cur is not None and isinstance(st, dict):
            arms[cur].append(st)
    rname = {v: k for k, v in en.items()}

    def seq(stmts):
        out = []
        for s_ in stmts:
            for n in walk(s_):
                if n.get("k") == "call" and n.get("ck") == "member" and name_is(n.get("callee"), ("QString::leftJustified", "QString::rightJustified")) and len(n.get("args", [])) >= 2:
                    # val.leftJustified(w, fill) == val + fill x (w - |val|); rightJustified pads in front (no truncation by default)
                    fill = skip_copies(n["args"][1])
                    isfill = fill.get("k") == "member" and (fill.get("name") or "").endswith("FormatSpec::fill")
                    wid = skip_copies(deref_local(ap, n["args"][0]))
                    isw = wid.get("k") == "member" and (wid.get("name") or "").endswith("FormatSpec::width")
                    trunc = len(n["args"]) > 2 and n["args"][2].get("k") != "defaultarg" and const_int(n["args"][2]) not in (0, None)
                    pieces = [("val", n.get("obj"), True), ("pad", wid, isfill and isw and not trunc)]
                    out += pieces if name_is(n.get("callee"), "QString::leftJustified") else list(reversed(pieces))
                    continue
                if n.get("k") == "call" and n.get("ck") == "member" and name_is(n.get("callee"), ("append", "operator+=")):
                    a = skip_copies(n["args"][0])
                    if a.get("k") == "construct" and a.get("class") == "QString" and len(a.get("args", [])) == 2:
                        fill = skip_copies(a["args"][1])
                        isfill = fill.get("k") == "member" and (fill.get("name") or "").endswith("FormatSpec::fill")
                        out.append(("pad", deref_local(ap, a["args"][0]), isfill))
                    elif a.get("k") == "ref":
                        out.append(("val", a, True))
                    else:
                        out.append(("?", a, False))
        return out
    pad_decl = None
    for n in ap.find(lambda n: n.get("k") == "decl"):
        for v in n.get("vars", []):
            if v.get("name") == "padding":
                pad_decl = v
    for nm in ("Left", "Right", "Center"):
        s_ = seq(arms.get(en[nm], []))
        kinds = [x[0] for x in s_]
        fills = all(x[2] for x in s_)
        if nm == "Left":
            ok = kinds == ["val", "pad"] and fills
        elif nm == "Right":
            ok = kinds == ["pad", "val"] and fills
        else:
            ok = kinds == ["pad", "val", "pad"] and fills
            if ok and pad_decl is not None:
                lp, rp = skip_copies(s_[0][1]), skip_copies(s_[2][1])
                okl = lp.get("k") == "binop" and lp.get("op") == "/" and is_ref_to(lp.get("lhs"), pad_decl["decl"]) and const_int(lp.get("rhs")) == 2
                okr = rp.get("k") == "binop" and rp.get("op") == "-" and is_ref_to(rp.get("lhs"), pad_decl["decl"]) and (deref_local(ap, rp.get("rhs")).get("id") == lp.get("id") or describe(deref_local(ap, rp.get("rhs"))) == describe(lp))
                ok = okl and okr
                if not ok:
                    ck.ob("C12-O4", sitestr(ap), False, "centre padding is left=%s right=%s (documented: floor(p/2) left, the rest right)" % (describe(lp), describe(rp)), key="applyPadding|center-split")
                    continue
        ck.ob("C12-O4", sitestr(ap), ok if (ok or kinds) else None, "%s alignment: %s with the fill character" % (nm, " + ".join(kinds)) if ok else "%s alignment appends %s" % (nm, kinds), key="applyPadding|arm-%s" % nm)
    if pad_decl is not None:
        pl = linear(pad_decl.get("init"), lambda n: "w" if (n.get("k") == "member" and (n.get("name") or "").endswith("FormatSpec::width")) else ("len" if is_call(n, ("QString::length", "QString::size")) else None))
        ok = pl == {"w": 1, "len": -1} or pl == {"w": 1, "len": -1, "": 0}
        ck.ob("C12-O4", sitestr(ap), ok, "padding = width - length" if ok else "padding = %s" % pl, key="applyPadding|padding")
    default_fill(ck, F)

def _at_index(fn, n, svar_pred):
    """k if expression n (after following single-assignment locals) is <spec string>.at(k) / [k] with constant k"""
    n = deref_local(fn, n)
    n = skip_copies(n)
    if isinstance(n, dict) and n.get("k") == "construct" and len(n.get("args", [])) == 1:
        return _at_index(fn, n["args"][0], svar_pred)
    if is_call(n, ("at", "operator[]")) or (isinstance(n, dict) and n.get("k") == "call" and n.get("op") == "[]"):
        obj = n.get("obj") if n.get("ck") == "member" else (n.get("args") or [None])[0]
        idx = (n.get("args") or [None])[-1]
        if svar_pred(skip_copies(obj)) and const_int(idx) is not None:
            return const_int(idx)
    return None


def spec_precedence(ck):
    """C12-O4: `[fill][align]width`: when the second character is an alignment character the first one is the fill — whatever it
    is, also '<', '>' or '^'. So the test of position 1 must come first and win over the align-only reading of position 0."""
    F = ck.facts
    fn = F.fn("FormattedToken::parseFormatSpec")
    ck.touch(fn)
    g = Graph(fn)
    svars = {v["decl"] for n in fn.find(lambda n: n.get("k") == "decl") for v in n.get("vars", []) if (v.get("type") or "").replace("const ", "") == "QString"} | {fn.params[0]["decl"]}
    is_s = lambda o: isinstance(o, dict) and o.get("k") == "ref" and o.get("decl") in svars
    # classification sites: an alignment test (contains("<^>") / charToAlignment) applied to s.at(k), wherever it is evaluated
    cls = {0: [], 1: []}
    for x in fn.calls():
        arg = None
        if name_is(x.get("callee"), "contains") and x.get("args") and const_str(x.get("obj")) is not None and set(const_str(x.get("obj"))) == set("<^>"):
            arg = x["args"][0]
        elif name_is(x.get("callee"), "charToAlignment") and x.get("args"):
            arg = x["args"][0]
        if arg is None:
            continue
        k = _at_index(fn, arg, is_s)
        if k in (0, 1) and g.site_of(x) is not None:
            cls[k].append(x)
    lencall = lambda n: is_call(n, ("QString::length", "QString::size", "QString::count")) and is_s(skip_copies(skip_copies(n).get("obj")))
    empt = lambda n: is_call(n, "QString::isEmpty") and is_s(skip_copies(skip_copies(n).get("obj")))

    def leaf(n):
        if lencall(n):
            return 3
        if empt(n):
            return 0
        return None
    base = numeric_atom(fn, leaf)
    s1 = set(g.sites_of_nodes(cls[1]))
    keep = g.projector(base)
    ok_first = all(g.dominated(g.site_of(c0), s1, keep=keep) for c0 in cls[0])
    ck.ob("C12-O4", sitestr(fn, cls[0][0]), ok_first, "with two or more characters the fill+align reading (position 1) is tested before the align-only reading (position 0)" if ok_first else
          "the align-only reading of position 0 is tried before/without testing position 1: a spec whose fill character is itself '<', '>' or '^' (\"%{type:>>10}\") is misread and rejected",
          key="parseFormatSpec|fill-align-precedence")
    # when position 1 is an alignment character the align-only reading must not be applied as well
    ids1 = {c["id"] for c in cls[1]}

    def atom(n):
        if n.get("id") in ids1:
            return True   # contains()-form of the position-1 test
        if n.get("k") == "binop" and n.get("op") in ("==", "!=") and any((skip_copies(x).get("name") or "").endswith("Alignment::None") for x in (n.get("lhs"), n.get("rhs"))):
            other = n.get("lhs") if (skip_copies(n.get("rhs")).get("name") or "").endswith("Alignment::None") else n.get("rhs")
            o = skip_copies(resolve_value(other, base, fn))
            if isinstance(o, dict) and o.get("id") in ids1:
                return n["op"] == "!="   # charToAlignment(s.at(1)) is an alignment: it is not None
            if isinstance(o, dict) and o.get("k") == "member" and o.get("name", "").endswith("::align"):
                return n["op"] == "!="   # align was just set from an alignment character
        return base(n)
    live = g.live(g.projector(atom))
    second = [c0 for c0 in cls[0] if g.site_of(c0) in live]
    ck.ob("C12-O4", sitestr(fn, cls[1][0]), not second, "once position 1 gave the alignment, position 0 is the fill and is not re-read as an alignment" if not second else
          "after the fill+align reading succeeded the first character is read again as an alignment", key="parseFormatSpec|fill-reread")


def literal_path(ck):
    """C12-O2 (escape everywhere): the literal accumulator of the tokeniser receives pattern text only one character at a time (or
    the '%' of an escape); a bulk copy of a slice of the pattern bypasses the %% rule unless the slice is cut at the next '%'"""
    F = ck.facts
    pp = F.fn("PatternFormatterPrivate::parsePattern")
    ck.touch(pp)
    lits = [n for n in pp.find(lambda n: n.get("k") == "construct" and (n.get("class") or "").endswith("LiteralToken") and n.get("args"))]
    decls = {skip_copies(n["args"][0]).get("decl") for n in lits if skip_copies(n["args"][0]).get("k") == "ref"}
    if len(decls) != 1:
        ck.ob("C12-O2", sitestr(pp), None, "literal accumulator of parsePattern not recognised")
        return
    acc = decls.pop()
    PAT = "PatternFormatterPrivate::m_pattern"
    n_w = 0
    for c in pp.calls():
        tgt, arg = None, None
        if c.get("ck") == "member" and is_ref_to(c.get("obj"), acc) and name_is(c.get("callee"), ("append", "push_back", "prepend", "insert")) and c.get("args"):
            tgt, arg = c, c["args"][-1]
        elif c.get("ck") == "operator" and c.get("op") in ("+=", "=") and c.get("args") and is_ref_to(c["args"][0], acc) and len(c["args"]) == 2:
            tgt, arg = c, c["args"][1]
        if tgt is None:
            continue
        n_w += 1
        a = skip_copies(arg)
        while isinstance(a, dict) and a.get("k") == "construct" and len(a.get("args", [])) == 1 and a.get("class") in ("QChar", "QString", "QLatin1Char"):
            a = skip_copies(a["args"][0])
        while isinstance(a, dict) and a.get("k") == "call" and a.get("conv") and a.get("obj"):
            a = skip_copies(a["obj"])
        if const_int(a) is not None or const_str(a) is not None:
            continue
        if isinstance(a, dict) and a.get("k") == "call" and (a.get("op") == "[]" or name_is(a.get("callee"), "at")) and any(is_this_field(x, PAT) for x in walk(a)):
            continue   # one character of the pattern
        # a run whose escapes are resolved afterwards in one go: slice.replace("%%", "%")
        resolved = False
        while isinstance(a, dict) and a.get("k") == "call" and name_is(a.get("callee"), "replace") and isinstance(a.get("obj"), dict) and len([x for x in a.get("args", []) if x.get("k") != "defaultarg"]) == 2 \
                and const_str(a["args"][0]) == "%%" and const_str(a["args"][1]) == "%":
            resolved = True
            a = skip_copies(a["obj"])
        slice_ = isinstance(a, dict) and a.get("k") == "call" and name_is(a.get("callee"), ("mid", "left", "right", "midRef", "leftRef", "rightRef", "sliced", "chopped")) and is_this_field(a.get("obj"), PAT)
        if slice_ and resolved:
            # the run may contain '%': its end must then be found with the escapes in mind. A search for the two-character needle "%{" is
            # blind to them - in "a%%{x}" the "%{" it finds is the second half of the escape followed by a literal brace
            def needle_of(y):
                for z in walk(y):
                    if is_call(z, ("indexOf",)) and z.get("args") and is_this_field(z.get("obj"), PAT):
                        return const_str(z["args"][0]) if const_str(z["args"][0]) is not None else (chr(const_int(z["args"][0])) if const_int(z["args"][0]) is not None else None)
                return None
            ends = []
            cut_ = a["args"][1] if name_is(a.get("callee"), ("mid", "midRef", "sliced")) and len(a.get("args", [])) >= 2 else (a["args"][0] if a.get("args") else None)
            locs = [x for x in walk(cut_) if x.get("k") == "ref" and x.get("dk") == "local"] if isinstance(cut_, dict) else []
            parity_checked = False
            for x in locs:
                _, var = local_var(pp, x["decl"])
                vals = [var["init"]] if var and isinstance(var.get("init"), dict) else []
                for r in refs_to(pp, x["decl"]):
                    asg, rhs = assignment_target(pp, r)
                    if asg is not None and rhs is not None:
                        vals.append(rhs)
                nd = [needle_of(v) for v in vals]
                if any(n_ is not None for n_ in nd):
                    ends += [n_ for n_ in nd if n_ is not None]
                    # any look at the characters in front of the position found (pattern[next - 1], a backwards loop) may be a parity test
                    for r in refs_to(pp, x["decl"]):
                        par = pp.nodes.get(pp.parent.get(r["id"]))
                        if isinstance(par, dict) and par.get("k") == "binop" and par.get("op") == "-" and const_int(par.get("rhs")) is not None:
                            gp = pp.nodes.get(pp.parent.get(par["id"]))
                            if isinstance(gp, dict) and gp.get("k") == "call" and (gp.get("op") == "[]" or name_is(gp.get("callee"), "at")):
                                parity_checked = True
            blind = [n_ for n_ in ends if len(n_) >= 2 and n_.startswith("%")]
            if blind and not parity_checked:
                ck.ob("C12-O2", sitestr(pp, tgt), False, "a run of pattern text is copied up to the next \"%s\" and its \"%%%%\" escapes resolved afterwards: the search does not know about the escape, so in \"a%%%%{x}\" the "
                      "second '%%' and the brace are taken for a placeholder start" % blind[0], key="parsePattern|literal-slice")
            else:
                ck.ob("C12-O2", sitestr(pp, tgt), None, "the literal text receives %s (a run with its escapes resolved in bulk); the end of the run is not one this rule can judge" % describe(arg)[:60])
        elif slice_:
            args = a.get("args", [])
            cut = None
            if name_is(a.get("callee"), ("mid", "midRef", "sliced")) and len(args) >= 2 and args[1].get("k") != "defaultarg":
                cut = args[1]
            elif name_is(a.get("callee"), ("left", "leftRef")) and args:
                cut = args[0]
            bounded = False
            def is_pct_index(y):
                return any(is_call(z, ("indexOf",)) and z.get("args") and (const_int(z["args"][0]) == 37 or const_str(z["args"][0]) == "%") for z in walk(y))

            def is_pat_len(y):
                y = skip_copies(y)
                return is_call(y, ("length", "size", "count")) and is_this_field(y.get("obj"), PAT)
            if cut is not None:
                for x in walk(cut):
                    if x.get("k") == "ref" and x.get("dk") == "local":
                        # every value the local can hold: its initialiser and all assignments
                        vals = []
                        _, var = local_var(pp, x["decl"])
                        if var and isinstance(var.get("init"), dict):
                            vals.append(var["init"])
                        for r in refs_to(pp, x["decl"]):
                            asg, rhs = assignment_target(pp, r)
                            if asg is not None and rhs is not None:
                                vals.append(rhs)
                        if vals and any(is_pct_index(v) for v in vals) and all(is_pct_index(v) or is_pat_len(v) for v in vals):
                            bounded = True
                    elif is_pct_index(x):
                        bounded = True
            ck.ob("C12-O2", sitestr(pp, tgt), bounded, "a run of pattern text is copied up to the next '%' (no escape or placeholder inside)" if bounded else
                  "%s copies a slice of the pattern into the literal text without looking for '%%' in it: a later \"%%%%\" escape is kept as two characters" % describe(tgt)[:70], key="parsePattern|literal-slice")
        else:
            ck.ob("C12-O2", sitestr(pp, tgt), None, "the literal text receives %s; idiom not recognised" % describe(a)[:60])
    ck.ob("C12-O2", sitestr(pp), n_w >= 3, "%d writes to the literal accumulator, each a single pattern character, a constant, or a run cut at '%%'" % n_w, key="parsePattern|literal-writes")


def stateless_tokens(ck):
    """the output is a function of (pattern, current message): a token object keeps nothing from one message to the next"""
    F = ck.facts
    ck.rule("C12-O5", "tokens are stateless between messages: no mutable data member in any token class or in the formatter's private class, no non-const "
                      "function-local static in their methods, no member written by a const method (a memo keyed on a pointer or on the previous message returns an earlier message's value)")
    base = [q for q in F.records if q.endswith("::Token") and "Formatter" not in q.split("::")[-1]]
    ck.require(len(base) == 1, "Token base class not found")
    classes = sorted(F.subclasses(base[0]) | {base[0]} | {q for q in F.records if q.endswith("PatternFormatter::PatternFormatterPrivate")})
    ck.require(len(classes) >= 14, "only %d token classes found (16 confirmed by hand)" % len(classes))
    for q in classes:
        rec = F.records[q]
        short = q.split("::")[-1]
        mut = [f_["name"] for f_ in rec.get("fields", []) if f_.get("mutable")]
        statics = []
        writes = []
        for f in sorted((x for x in F.fns.values() if x.cls == q and x.body is not None), key=lambda x: x.sig):
            ck.touch(f)
            for d in f.find(lambda n: n.get("k") == "decl"):
                for v in d.get("vars", []):
                    if v.get("static") and not v.get("const"):
                        statics.append((f, d, v.get("name")))
            if f.d.get("constm"):
                for fld in rec.get("fields", []):
                    for wf, wn, how in field_writes(F, q + "::" + fld["name"]):
                        if wf.id == f.id:
                            writes.append((f, wn, fld["name"]))
        bad = mut or statics or writes
        site = sitestr(statics[0][0], statics[0][1]) if statics else sitestr(writes[0][0], writes[0][1]) if writes else "%s (class %s)" % (rec.get("file", "patternformatter.cpp").split("/src/")[-1], short)
        why = []
        if mut:
            why.append("mutable member(s) %s" % ", ".join(mut))
        if statics:
            why.append("function-local static %s in %s" % (statics[0][2], statics[0][0].name.split("::")[-1]))
        if writes:
            why.append("%s written by the const method %s" % (writes[0][2], writes[0][0].name.split("::")[-1]))
        ck.ob("C12-O5", site, not bad, "%s keeps no state between messages" % short if not bad else
              "%s keeps state across messages (%s): what it prints can come from an earlier message" % (short, "; ".join(why)), key="%s|stateful" % short)


def default_fill(ck, F):
    # default fill
    for r in F.records.values():
        if r["name"].endswith("FormattedToken::FormatSpec"):
            fl = [f for f in r["fields"] if f["name"] == "fill"]
            ok = bool(fl) and fl[0].get("init") is not None and (const_str(fl[0]["init"]) == " " or const_int(fl[0]["init"]) == 32)
            ck.ob("C12-O4", "patternformatter.cpp (FormatSpec::fill)", ok, "fill defaults to a space" if ok else "fill defaults to %s" % describe(fl[0].get("init")) if fl else "no fill field", key="FormatSpec|fill-default")



def padding_table(ck, F, en):
    """C12-O4 by cases: applyPadding is a pure function of (alignment, truncate mode, width, fill, value). It is evaluated from the
    source (engine/conc.py) on a grid that contains every boundary (value shorter / equal / longer than the width, odd and even
    padding, width 0) and compared with the documented behaviour. Returns False when the code leaves the evaluable fragment:
    the shape rules below take over."""
    from engine.conc import Conc, Unknown
    ap = F.fn("FormattedToken::applyPadding", flat=False)
    tm = None
    for e in F.enums.values():
        if e["name"].endswith("FormattedToken::TruncateMode"):
            tm = {x["name"]: x["value"] for x in e["enumerators"]}
    rec = [r for r in F.records.values() if r["name"].endswith("FormattedToken::FormatSpec")]
    if tm is None or len(rec) != 1 or not {"None", "Truncate", "TruncateOnly"} <= set(tm) or not {"None", "Left", "Right", "Center"} <= set(en):
        return False
    q = {f_["name"]: strip_tmpl(f_.get("qname") or (rec[0]["name"] + "::" + f_["name"])) for f_ in rec[0]["fields"]}
    if not {"width", "align", "truncateMode", "fill"} <= set(q):
        return False

    def ref(value, align, trunc, width, fill, tidy=False):
        if width <= 0:
            return value

        def cut(v):
            v = v[len(v) - width:] if align == "Right" else v[:width]
            # tidy: a cut that falls inside a surrogate pair may also drop the half that is left (half a character is no character of the value)
            if tidy and v and align == "Right" and 0xDC00 <= ord(v[0]) <= 0xDFFF:
                v = v[1:]
            elif tidy and v and align != "Right" and 0xD800 <= ord(v[-1]) <= 0xDBFF:
                v = v[:-1]
            return v
        if trunc == "TruncateOnly":
            return value if len(value) <= width else cut(value)
        if align == "None":
            return value
        v = cut(value) if (trunc == "Truncate" and len(value) > width) else value
        if len(v) >= width:
            return v
        pad = width - len(v)
        if align == "Left":
            return v + fill * pad
        if align == "Right":
            return fill * pad + v
        return fill * (pad // 2) + v + fill * (pad - pad // 2)
    # values are sequences of UTF-16 code units, as QString has them: an astral character is two units (a surrogate pair), and the documented cut
    # ("keep the first / last N characters") counts units - a complete character of the value may never be damaged by looking at its neighbours
    values = ("", "a", "ab", "abc", "abcd", "abcde", "abcdefghij", "ab\ud83d\ude00", "a\ud83d\ude00bc", "\ud83d\ude00abc", "ab\ud83d\ude00cd\ud83d\ude01e")
    wrong, unknown, n = [], None, 0
    for align in ("None", "Left", "Right", "Center"):
        for trunc in ("None", "Truncate", "TruncateOnly"):
            for width in (0, 1, 2, 3, 4, 5, 8):
                for value in values:
                    fields = {q["width"]: width, q["align"]: en[align], q["truncateMode"]: tm[trunc], q["fill"]: ord(".")}
                    c = Conc(F, max_steps=4000)
                    try:
                        got = c.call_fn(ap, [value], fields)
                    except Unknown as e_:
                        unknown = str(e_)
                        break
                    n += 1
                    want = ref(value, align, trunc, width, ".")
                    if got != want and got != ref(value, align, trunc, width, ".", tidy=True):
                        wrong.append("align=%s truncate=%s width=%d value=%r -> %r (documented %r)" % (align, trunc, width, value, got, want))
                if unknown:
                    break
            if unknown:
                break
        if unknown:
            break
    if unknown:
        ck.notes.append("applyPadding could not be tabulated (%s): decided by the shape rules" % unknown)
        return False
    ck.touch(ap)
    ck.ob("C12-O4", sitestr(ap), not wrong, "applyPadding evaluated on %d cases (4 alignments x 3 truncate modes x widths 0..8 x values shorter / equal / longer than the width): "
          "padding side, centre split floor(p/2) left, kept end on truncation and the no-op cases all as documented" % n if not wrong else
          "applyPadding differs from the documented behaviour in %d of %d cases, e.g. %s" % (len(wrong), n, "; ".join(wrong[:3])), key="applyPadding|table")
    return True


def placeholder_text_intact(ck):
    """C12-O6: the text between `%{` and `}` reaches the dispatch as written, less a trailing `:spec` that parses as a format
    specification.  Attribute names are free text (they may contain spaces); cutting the placeholder anywhere else before the name test
    looks the wrong attribute up, and turns an unknown placeholder into a different literal."""
    F = ck.facts
    ck.rule("C12-O6", "parsePattern(): the placeholder text is modified before the dispatch only by removing a trailing ':spec' found with lastIndexOf(':'); the keyword-specific arguments (time FORMAT, shortfile BASE, if-TYPE, attr?N,M) are read from it without changing it")
    fn = F.fn("PatternFormatterPrivate::parsePattern")
    ck.touch(fn)
    ph = None
    for dn in fn.find(lambda n: n.get("k") == "decl"):
        for v in dn.get("vars", []):
            i = skip_copies(v.get("init")) if isinstance(v.get("init"), dict) else None
            if i is not None and is_call(i, "QString::mid") and "QString" in (v.get("type") or "") and len(i.get("args", [])) >= 2 and \
                    any(x.get("k") == "binop" and x.get("op") == "+" and const_int(x.get("rhs")) == 2 for x in walk(i["args"][0])):
                ph = v
    if ph is None:
        ck.ob("C12-O6", sitestr(fn), None, "the local holding the placeholder text (pattern.mid(pos + 2, ...)) was not found", key="parsePattern|placeholder-intact")
        return
    d = ph["decl"]
    MUT = ("truncate", "chop", "remove", "replace", "resize", "clear", "insert", "prepend", "append", "fill", "squeeze", "swap")
    writes = []
    for n in fn.all_nodes():
        if n.get("k") == "call" and n.get("ck") == "operator" and n.get("op") in ("=", "+=") and n.get("args") and is_ref_to(skip_copies(n["args"][0]), d):
            writes.append((n, n["args"][1]))
        elif n.get("k") == "binop" and n.get("op") in ("=", "+=") and is_ref_to(n.get("lhs"), d):
            writes.append((n, n.get("rhs")))
        elif n.get("k") == "call" and n.get("ck") == "member" and (n.get("callee") or "").split("::")[-1] in MUT and is_ref_to(skip_copies(n.get("obj") or {}), d):
            writes.append((n, n))

    def cut_char(fn_, e):
        """the constant character whose position bounds the cut, if the cut position comes from indexOf/lastIndexOf(<char>)"""
        for x in walk(e):
            y = skip_copies(deref_local(fn_, x)) if x.get("k") == "ref" else x
            for z in walk(y):
                if is_call(z, ("QString::indexOf", "QString::lastIndexOf")) and z.get("args"):
                    from engine.strabs import const_char
                    c = const_char(z["args"][0])
                    if c is not None:
                        return c, (z.get("callee") or "").split("::")[-1]
        return None, None
    bad = 0
    for n, rhs in writes:
        c, how = cut_char(fn, rhs)
        ok = c == ":" and how == "lastIndexOf" and (is_call(skip_copies(rhs), "QString::left") or (n.get("k") == "call" and (n.get("callee") or "").endswith("truncate")))
        if not ok:
            bad += 1
            ck.ob("C12-O6", sitestr(fn, n), False if c is not None else None,
                  "parsePattern() cuts the placeholder text at %s before the dispatch (%s): every placeholder is affected, not only the keyword it was meant for — an attribute `%%{request id}` is looked up as `request`, "
                  "an unknown `%%{no such thing}` is reproduced as `%%{no}`" % (repr(c), describe(n)[:50]) if c is not None else
                  "parsePattern() modifies the placeholder text (%s) in a way this rule cannot classify" % describe(n)[:50], key="parsePattern|placeholder-intact")
    if not bad:
        ck.ob("C12-O6", sitestr(fn), True, "the placeholder text is modified only by dropping a trailing ':spec' (%d write site%s)" % (len(writes), "" if len(writes) == 1 else "s"), key="parsePattern|placeholder-intact")


def result_never_null(ck):
    """C12-O9: a pattern that expands to nothing for a message (only %{if-...} blocks of other types, only absent optional attributes) prescribes the
    EMPTY text. LogMessage::isFormatted() is !isNull(), so a formatter that returns a null QString is taken for "nothing formatted" and the sinks
    write the raw message instead. The result buffer of format() must therefore be made non-null on every path (reserve() does that), not only by
    the token appends, which may all append nothing."""
    F = ck.facts
    fm = F.fn("PatternFormatterPrivate::format")
    ck.touch(fm)
    g = Graph(fm)
    rets = [r for r in returns(fm) if isinstance(r.get("e"), dict)]
    locs = {}
    for r in rets:
        e = skip_copies(r["e"])
        if e.get("k") == "ref" and e.get("dk") == "local":
            _, var = local_var(fm, e["decl"])
            if var is not None and "QString" in (var.get("type") or ""):
                locs.setdefault(e["decl"], []).append(r)
    if not locs:
        ck.ob("C12-O9", sitestr(fm), None, "format() does not return a local QString buffer; the null / empty distinction of its result is not decided", key="format|null-result")
        return
    for d, rs in locs.items():
        _, var = local_var(fm, d)
        init = skip_copies(var.get("init")) if isinstance(var.get("init"), dict) else None
        born_nonnull = init is not None and (const_str(init) is not None and not (init.get("k") == "construct" and not [a for a in init.get("args", []) if a.get("k") != "defaultarg"]))
        makers = [c for c in fm.calls() if c.get("ck") == "member" and is_ref_to(skip_copies(c.get("obj") or {}), d) and name_is(c.get("callee"), ("reserve", "resize", "fill", "detach"))]
        makers += [n for n in fm.all_nodes() if n.get("k") == "call" and n.get("ck") == "operator" and n.get("op") == "=" and n.get("args") and is_ref_to(skip_copies(n["args"][0]), d) and const_str(n["args"][1]) is not None]
        ok = born_nonnull or (bool(makers) and all(g.must_pass(set(g.sites_of_nodes(makers)), to=g.site_of(r)) if g.site_of(r) is not None else False for r in rs))
        ck.ob("C12-O9", sitestr(fm, rs[0]), ok, "the result buffer is made non-null on every path before it is returned (reserve): a pattern that expands to nothing yields the empty text, not 'unformatted'" if ok else
              "format() can return a null QString: when no token appends anything (a pattern of %{if-...} blocks that do not apply, absent optional attributes) the buffer was never touched, "
              "isFormatted() is false and every sink writes the raw message instead of the prescribed empty text", key="format|null-result")
