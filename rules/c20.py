"""C20 — the single header is exactly the amalgamation of the sources (DESIGN.md section 3, C20)."""
import difflib
import hashlib
import os
import re
import shutil
import subprocess
import tempfile

from engine.extract import REPO, AnalysisBroken
from engine.facts import walk, children

LEVEL = "translation_validation"
NEEDS_FACTS = True
MIN_OBLIGATIONS = 3
QUICK_CONFIGS = ("headeronly",)
THOROUGH_CONFIGS = ("headeronly",)
MIN_FUNCTIONS_COMPARED = 250
TECHNIQUE = ("translation validation: (text) the project's generator is re-run on a scratch copy of the working tree and its output compared byte for byte with qtlogger.h; "
             "(resolved program) the type-checked clang AST of every function of the library build is compared with the same function parsed from qtlogger.h - resolved callees, "
             "overloads, implicit conversions and constants included - so a header that is the exact amalgamation but means something else is seen as well; linkage rules on the header-only parse: every definition includable twice, no mutable internal-linkage variable that carries state (one copy per translation unit), and the header compiles wherever the library does; every amalgamated file leaves the compiler state (pragma push/pop, packing, using-directives) as it found it"
             "; every namespace-scope object of the library is constant-initialised (clang's hasConstantInitialization), one named exception")
LEVEL_TEXT = ("Fully decided on text: one amalgamation (the working tree's sources) is regenerated with the project's own source-to-source tool and compared "
              "byte for byte; every difference is a hunk mapped to the originating source file. Both tiers also compare the normalised, type-checked clang AST of every "
              "function of the library build with the same function parsed from qtlogger.h: a generator that silently drops or alters code, or file-local names of two "
              "sources that meet in the single translation unit and change overload resolution, are seen as well.")
LEVEL_NOTE = "trusts python3 running tools/gen_qtlogger.h.py as the oracle named by the property; the library itself is never executed"
DESIGN_REF = "DESIGN.md section 3, C20"
EXPLANATION = ("src/qtlogger, tools/gen_qtlogger.h.py and qtlogger.h of the working tree are copied to a scratch directory, the generator is run there and its "
               "output compared with the committed header (bytes). Differences are reported as unified-diff hunks attributed to source files through the "
               "generator's '// file' / '// end file' markers.")
TRUSTED = ["tools/gen_qtlogger.h.py is the oracle (the property says so)", "python3 difflib / hashlib"]
ASSUMPTIONS = ["the generator is deterministic (it reads only src/qtlogger)"]
NOT_DECIDED = []


def _sha(p):
    return hashlib.sha256(open(p, "rb").read()).hexdigest()[:16]


def attribute_line(lines, idx):
    """source file a line of the amalgamated header came from, through the generator's markers"""
    stack = []
    for i, l in enumerate(lines[:idx + 1]):
        m = re.match(r"^// end (\S+\.(?:h|cpp))\s*$", l)
        if m:
            if stack and stack[-1] == m.group(1):
                stack.pop()
            continue
        m = re.match(r"^// (\S+\.(?:h|cpp))\s*$", l)
        if m:
            stack.append(m.group(1))
    return stack[-1] if stack else "<preamble>"


def run(ck):
    if ck.config != "lib":
        return
    text_agreement(ck)
    ast_agreement(ck)
    consumer_defines(ck)
    includable_twice(ck)
    one_state_per_program(ck)
    unit_scoped_state(ck)
    no_initialisation_order_dependence(ck)


def text_agreement(ck):
    ck.rule("C20-O1", "qtlogger.h is byte-for-byte the output of tools/gen_qtlogger.h.py on the current src/qtlogger")
    hdr = os.path.join(REPO, "qtlogger.h")
    gen = os.path.join(REPO, "tools", "gen_qtlogger.h.py")
    src = os.path.join(REPO, "src", "qtlogger")
    for p in (hdr, gen, src):
        if not os.path.exists(p):
            raise AnalysisBroken("%s is missing" % p)
    scratch = tempfile.mkdtemp(prefix="qlc20.")
    try:
        os.makedirs(os.path.join(scratch, "src"))
        os.makedirs(os.path.join(scratch, "tools"))
        shutil.copytree(src, os.path.join(scratch, "src", "qtlogger"), ignore=shutil.ignore_patterns("build", "_build"))
        shutil.copy(gen, os.path.join(scratch, "tools", "gen_qtlogger.h.py"))
        r = subprocess.run(["python3", os.path.join(scratch, "tools", "gen_qtlogger.h.py")], cwd=scratch, stdout=subprocess.PIPE, stderr=subprocess.STDOUT, text=True)
        out = os.path.join(scratch, "qtlogger.h")
        if r.returncode != 0 or not os.path.exists(out):
            raise AnalysisBroken("the generator failed: %s" % r.stdout[-800:])
        want = open(out, "rb").read()
        have = open(hdr, "rb").read()
        files = sorted(os.path.relpath(os.path.join(d, f), scratch) for d, _, fs in os.walk(os.path.join(scratch, "src")) for f in fs if f.endswith((".h", ".cpp")))
        included = [l.split()[-1] for l in r.stdout.splitlines() if " include " in l or " append " in l]
        ck.extra_coverage = {
            "programs": 1,
            "disagreements_checked": 0,
            "source_files": len(files),
            "files_amalgamated": len(included),
            "generated_sha256": hashlib.sha256(want).hexdigest(),
            "committed_sha256": hashlib.sha256(have).hexdigest(),
            "bytes": len(want),
        }
        completeness(ck, have.decode("utf-8", "replace"), os.path.join(scratch, "src", "qtlogger"))
        if want == have:
            ck.ob("C20-O1", "qtlogger.h", True, "identical to the generator's output (%d bytes, %d source files amalgamated)" % (len(want), len(included)))
            ck.ob("C20-O1", "tools/gen_qtlogger.h.py", len(included) >= 60, "the generator visited %d files (>= 60 expected from the hand count of src/qtlogger)" % len(included),
                  key="generator|file-count")
            return
        a = have.decode("utf-8", "replace").splitlines()
        b = want.decode("utf-8", "replace").splitlines()
        sm = difflib.SequenceMatcher(None, a, b, autojunk=False)
        hunks = 0
        for tag, i1, i2, j1, j2 in sm.get_opcodes():
            if tag == "equal":
                continue
            hunks += 1
            srcfile = attribute_line(b, max(j1, 0)) if j2 > j1 else attribute_line(a, max(i1, 0))
            ck.ob("C20-O1", "qtlogger.h:%d (from %s)" % (i1 + 1, srcfile), False,
                  "header has %r where the generator produces %r" % ("\n".join(a[i1:i2])[:160], "\n".join(b[j1:j2])[:160]),
                  key="qtlogger.h|differs|%s" % srcfile)
            if hunks >= 20:
                break
        ck.extra_coverage["disagreements_checked"] = hunks
    finally:
        shutil.rmtree(scratch, ignore_errors=True)


def completeness(ck, header_text, srcdir):
    """independent of the generator: every .cpp under src/qtlogger and every header in the quoted-include closure of
    src/qtlogger/qtlogger.h and of those .cpp files has its '// <file>' section in the amalgamated header"""
    ck.rule("C20-O3", "every source file and every transitively included project header has its section in qtlogger.h")
    markers = set(re.findall(r"^// (\S+\.(?:h|cpp))\s*$", header_text, re.M))
    cpps = []
    for d, dirs, fs in os.walk(srcdir):
        dirs[:] = [x for x in dirs if x not in ("build", "_build")]
        for f in fs:
            if f.endswith(".cpp"):
                cpps.append(os.path.join(d, f))
    seen = set()
    stack = [os.path.join(srcdir, "qtlogger.h")] + cpps
    while stack:
        p = stack.pop()
        if p in seen or not os.path.exists(p):
            continue
        seen.add(p)
        for inc in re.findall(r'#\s*include "([^"]+)"', open(p, errors="replace").read()):
            for base in (os.path.dirname(p), os.path.join(os.path.dirname(p), "..")):
                q = os.path.abspath(os.path.join(base, inc))
                if os.path.exists(q):
                    stack.append(q)
                    break
    missing = sorted(os.path.relpath(p, srcdir) for p in seen if os.path.basename(p) not in markers)
    ck.ob("C20-O3", "qtlogger.h", not missing, "%d files of the include closure (%d .cpp) all have a section in qtlogger.h" % (len(seen), len(cpps)) if not missing else
          "files without a section in qtlogger.h: %s" % missing, key="qtlogger.h|missing-section|%s" % (missing[0] if missing else ""))


DROP = {"id", "l", "c", "decl", "fn", "unit"}


def canon(n, env):
    if isinstance(n, dict):
        out = []
        for k in sorted(n):
            if k in ("id", "l", "c", "unit"):
                continue
            v = n[k]
            if k in ("decl",):
                if isinstance(v, str):
                    v = env.setdefault(v, "decl%d" % len(env))  # identity by order of first appearance (USRs of locals embed file offsets)
            if k in ("fn", "insts"):
                continue  # USRs embed the file name for anonymous-namespace types and closures; 'sig'/'callee' carry the resolved name
            out.append((k, canon(v, env)))
        return tuple(out)
    if isinstance(n, list):
        return tuple(canon(x, env) for x in n)
    if isinstance(n, str) and "(lambda at " in n:
        return re.sub(r"\(lambda at [^)]*\)", "(lambda)", n)  # closure type names embed file:line:col
    return n


def first_difference(a, b, path="body"):
    """where two normalised trees part: (path, what the library has, what the header has)"""
    if isinstance(a, dict) and isinstance(b, dict):
        for k in sorted(set(a) | set(b)):
            if k in ("id", "l", "c", "unit", "fn", "insts", "decl"):
                continue
            if k not in a or k not in b:
                return path, "%s=%r" % (k, a.get(k)), "%s=%r" % (k, b.get(k))
            if isinstance(a[k], (dict, list)):
                continue
            x, y = a[k], b[k]
            if isinstance(x, str):
                x, y = re.sub(r"\(lambda at [^)]*\)", "(lambda)", x), re.sub(r"\(lambda at [^)]*\)", "(lambda)", str(y))
            if x != y:
                return path, "%s=%r" % (k, a[k]), "%s=%r" % (k, b[k])
        for k in sorted(set(a) | set(b)):
            if isinstance(a.get(k), (dict, list)):
                r = first_difference(a[k], b.get(k), "%s.%s" % (path, k) if not isinstance(a[k], list) else "%s.%s" % (path, k))
                if r:
                    return r
        return None
    if isinstance(a, list) and isinstance(b, list):
        if len(a) != len(b):
            return path, "%d elements" % len(a), "%d elements" % len(b)
        for i, (x, y) in enumerate(zip(a, b)):
            r = first_difference(x, y, "%s[%d]" % (path, i))
            if r:
                return r
        return None
    if type(a) != type(b):
        return path, repr(a)[:60], repr(b)[:60]
    return None


def ast_agreement(ck):
    """AST-level agreement between the library build and the header-only build"""
    lib = ck.configs.get("lib")
    ho = ck.configs.get("headeronly")
    if lib is None or ho is None or not lib.fns:
        raise AnalysisBroken("the header-only configuration (qtlogger.h as one translation unit) could not be extracted")
    ck.rule("C20-O2", "every function of the library build exists in the header-only build (qtlogger.h) with an identical normalised AST")
    # closure types print as "(lambda at <file>:<line>:<col>)": the file differs between the two builds by construction
    nsig = lambda sg: re.sub(r"\(lambda at [^)]*\)", "(lambda)", sg or "")
    by_sig = {}
    for f in ho.fns.values():
        by_sig.setdefault(nsig(f.sig), []).append(f)
    n = 0
    bad = 0
    for f in sorted(lib.fns.values(), key=lambda f: f.sig):
        if f.lambda_of:
            continue
        n += 1
        ck.touch(f)
        cands = [x for x in by_sig.get(nsig(f.sig), []) if not x.lambda_of]
        if not cands:
            bad += 1
            ck.ob("C20-O2", "%s (%s)" % (f.loc(), f.sig), False, "defined in the library sources but absent from qtlogger.h", key="missing-in-header|%s" % f.sig)
            continue
        a = canon({"body": f.body, "inits": f.inits}, {})
        if not any(canon({"body": x.body, "inits": x.inits}, {}) == a for x in cands):
            bad += 1
            d = first_difference({"body": f.body, "inits": f.inits}, {"body": cands[0].body, "inits": cands[0].inits}, "")
            where = ""
            if d:
                node = None
                where = " - first difference at %s: library %s, single header %s" % (d[0].lstrip("."), d[1], d[2])
            ck.ob("C20-O2", "%s (%s)" % (f.loc(), f.sig), False, "the same source text means something else inside qtlogger.h (resolved callee / overload / conversion / constant differs)%s" % where[:400],
                  key="differs-in-header|%s" % f.sig)
    if n < MIN_FUNCTIONS_COMPARED:
        raise AnalysisBroken("only %d library functions were compared with the single header (%d confirmed by hand)" % (n, MIN_FUNCTIONS_COMPARED))
    ck.ob("C20-O2", "qtlogger.h vs src/qtlogger", bad == 0, "%d library functions compared with their header-only counterparts, %d disagreements" % (n, bad), key="ast-summary")


def consumer_defines(ck):
    """the single header is compiled with the application's own Qt feature macros, the library with the project's. The one macro that
    changes the *type* of ordinary library code is QT_USE_QSTRINGBUILDER: `a + b` on strings becomes a QStringBuilder proxy that only
    holds references to its operands. Stored in an `auto` variable, the proxy outlives a temporary operand (QLatin1Char('/'), a char,
    a QLatin1String): header-only users read a dead temporary where library users read a QString."""
    from engine.facts import skip_copies, describe
    lib = ck.configs.get("lib")
    ck.rule("C20-O4", "library code keeps its meaning under the consumer-side macro QT_USE_QSTRINGBUILDER: no `auto` variable is initialised by a string concatenation one of whose operands is a "
                      "non-QString temporary (character / Latin-1 / view wrapper), which the QStringBuilder proxy would reference after its death")
    n = 0
    notes = []
    bad = 0

    def leaves(x):
        x = skip_copies(x)
        if isinstance(x, dict) and x.get("k") == "call" and x.get("op") == "+" and len(x.get("args", [])) == 2:
            return leaves(x["args"][0]) + leaves(x["args"][1])
        return [x]
    for f in sorted(lib.fns.values(), key=lambda f: (f.file, f.line, f.sig)):
        if f.body is None or "/src/qtlogger/" not in (f.file or ""):
            continue
        for d in f.find(lambda n: n.get("k") == "decl"):
            for v in d.get("vars", []):
                if not v.get("auto") or (v.get("type") or "").replace("const ", "").replace("&", "").strip() != "QString" or not isinstance(v.get("init"), dict):
                    continue
                i = skip_copies(v["init"])
                if not (i.get("k") == "call" and i.get("op") == "+"):
                    continue
                n += 1
                temps = []
                for x in leaves(i):
                    t = (x.get("type") or "").replace("const ", "").strip()
                    if x.get("k") in ("ref", "member", "this", "str", "qstr") or x.get("k") == "defaultarg":
                        continue      # lvalues and string literals outlive the variable
                    if t in ("QString",) or t.startswith("QString"):
                        notes.append("%s: `auto %s` = concatenation with a temporary QString (same dangling reference in principle; the dead QString's storage stays readable, no failure could be shown)" % (f.loc(d), v.get("name")))
                        continue
                    temps.append((x, t))
                if temps:
                    bad += 1
                    ck.touch(f)
                    ck.ob("C20-O4", "%s (%s)" % (f.loc(d), f.name.split("::")[-1]), False, "`auto %s = %s`: with QT_USE_QSTRINGBUILDER among the application's defines the single header makes %s a QStringBuilder "
                          "referring to the temporary %s (%s), dead at the end of the statement; the library build has a QString. Declare the variable as QString." %
                          (v.get("name"), describe(i)[:70], v.get("name"), describe(temps[0][0])[:30], temps[0][1]), key="auto-stringbuilder|%s|%s" % (f.name.split("::")[-1], v.get("name")))
    ck.extra_coverage["auto_string_concatenations"] = {"examined": n, "notes": notes}
    if not bad:
        ck.ob("C20-O4", "src/qtlogger", True, "%d `auto` variables initialised by a string concatenation: none has a non-QString temporary operand" % n, key="auto-stringbuilder|none")


def includable_twice(ck):
    """users copy qtlogger.h into a project and include it wherever they log: every definition in it must be allowed to appear in
    several translation units (inline / template / in-class / internal linkage), as QTLOGGER_DECL_SPEC = inline makes it for the sources"""
    ho = ck.configs.get("headeronly")
    ck.rule("C20-O5", "every function and variable the single header defines at namespace scope with external linkage is inline or a template (the generator turns QTLOGGER_DECL_SPEC into `inline`; a definition "
                      "without the macro is an ordinary function in the header and the second translation unit that includes it fails to link)")
    root_hdr = [f for f in ho.fns.values() if f.body is not None and (f.file or "").endswith("/qtlogger.h") and not (f.file or "").endswith("/src/qtlogger/qtlogger.h")]
    if len(root_hdr) < 250:
        raise AnalysisBroken("only %d function definitions found in qtlogger.h" % len(root_hdr))
    bad = 0
    for f in sorted(root_hdr, key=lambda f: (f.line, f.sig)):
        if f.lambda_of or f.d.get("implicit") or f.d.get("templated") or f.d.get("inline") or not f.d.get("extern"):
            continue
        bad += 1
        ck.ob("C20-O5", "%s (%s)" % (f.loc(), f.sig), False, "defined in the single header as an ordinary (non-inline) function with external linkage: a program that includes qtlogger.h in two "
              "translation units gets 'multiple definition of %s' from the linker; the source definition lacks QTLOGGER_DECL_SPEC" % f.name, key="not-inline|%s" % f.sig)
    for gv in sorted(ho.globals.values(), key=lambda g: (g["file"], g["line"])):
        if not gv["file"].endswith("/qtlogger.h") or gv["file"].endswith("/src/qtlogger/qtlogger.h") or gv.get("staticlocal") or gv.get("templated") or gv.get("inline") or not gv.get("extern"):
            continue
        if gv.get("const") and not gv.get("staticmember"):
            continue      # namespace-scope const objects have internal linkage
        bad += 1
        ck.ob("C20-O5", "%s:%d (%s)" % (gv["file"].split("/")[-1], gv["line"], gv["name"]), False, "variable with external linkage defined (not inline) in the single header: multiple definition in the second translation unit",
              key="not-inline-var|%s" % gv["name"])
    if not bad:
        ck.ob("C20-O5", "qtlogger.h", True, "%d function definitions and the namespace-scope variables of the single header: all inline, templates, in-class or with internal linkage" % len(root_hdr), key="not-inline|none")


def one_state_per_program(ck):
    """C20-O6: in the library every piece of static state exists once.  In the single header a variable with internal linkage (unnamed
    namespace, `static`, or a static local of a function with internal linkage) exists once per translation unit, while the inline
    functions that use it are merged by the linker: one unit's function writes a copy that another unit's function never reads."""
    from engine.util import write_kind, const_str, skip_copies, walk, describe
    ho = ck.configs.get("headeronly")
    ck.rule("C20-O6", "no mutable variable of the single header has internal linkage (one copy per translation unit) unless it is a cache of constants: state that the library keeps once "
                      "(the active logger, the displaced message handler, the previous message pattern, singletons) is one object per program — an inline variable, or a static local of an inline function with external linkage")
    cands = [g for g in ho.globals.values() if g["file"].endswith("/qtlogger.h") and not g["file"].endswith("/src/qtlogger/qtlogger.h") and not g.get("const") and not g.get("extern") and not g.get("templated")]
    total = [g for g in ho.globals.values() if g["file"].endswith("/qtlogger.h") and not g["file"].endswith("/src/qtlogger/qtlogger.h") and not g.get("const")]
    if len(total) < 5:
        raise AnalysisBroken("only %d mutable static-storage variables found in qtlogger.h (the logger instance, the handler bookkeeping, the pattern memory were confirmed by hand)" % len(total))

    def constant_expr(fn, e, depth=0, seen=None):
        """the value depends on nothing but literals and locals that are themselves computed from literals / loop counters"""
        seen = seen if seen is not None else set()
        if not isinstance(e, dict):
            return True
        if const_str(e) is not None:
            return True
        for x in walk(e):
            k = x.get("k")
            if k == "this" or (k == "ref" and x.get("dk") in ("param", "field")) or k == "member":
                return False
            if k == "lambda":
                continue
            if k == "call" and x.get("ck") in ("member", "free") and const_str(x) is None and not (x.get("callee") or "").startswith(("QStaticStringData", "QStringLiteral")):
                if (x.get("callee") or "").split("::")[-1] not in ("operator()",) and not (x.get("callee") or "").startswith("Q"):
                    return False
            if k == "ref" and x.get("dk") == "local" and x.get("decl") not in seen and depth < 3:
                seen.add(x["decl"])
                for w in writes_of(fn, x["decl"]):
                    if not constant_expr(fn, w, depth + 1, seen):
                        return False
        return True

    def writes_of(fn, decl):
        """expressions whose value is stored into `decl` inside fn (initialiser, assignments, element assignments)"""
        out = []
        for n in fn.all_nodes():
            if n.get("k") == "decl":
                for v in n.get("vars", []):
                    if v.get("decl") == decl and isinstance(v.get("init"), dict):
                        out.append(v["init"])
            if n.get("k") == "binop" and (n.get("op") or "").endswith("=") and n.get("op") not in ("==", "!=", "<=", ">="):
                l = skip_copies(n.get("lhs"))
                base = l
                while isinstance(base, dict) and base.get("k") == "subscript":
                    base = skip_copies(base.get("base"))
                if isinstance(base, dict) and base.get("k") == "ref" and base.get("decl") == decl:
                    out.append(n.get("rhs"))
            if n.get("k") == "call" and n.get("ck") == "operator" and n.get("op") in ("=", "+=") and n.get("args"):
                l = skip_copies(n["args"][0])
                if isinstance(l, dict) and l.get("k") == "ref" and l.get("decl") == decl and len(n["args"]) > 1:
                    out.append(n["args"][1])
            if n.get("k") == "call" and n.get("ck") == "member" and n.get("constm") is False:
                o = skip_copies(n.get("obj")) if isinstance(n.get("obj"), dict) else {}
                if o.get("k") == "ref" and o.get("decl") == decl:
                    out += [a for a in n.get("args", [])]
        return out
    bad = 0
    for gv in sorted(cands, key=lambda g: (g["line"], g["name"])):
        if gv.get("staticlocal"):
            fns = [ho.fns.get(gv.get("function"))]
        else:
            fns = [f for f in ho.fns.values() if f.body is not None]
        stored = []
        for f in fns:
            if f is None or f.body is None:
                continue
            stored += [(f, w) for w in writes_of(f, gv["decl"])]
        state = [(f, w) for f, w in stored if not constant_expr(f, w)]
        where = "%s:%d (%s)" % (gv["file"].split("/")[-1], gv["line"], gv["name"])
        t = gv.get("type") or ""
        if "QtLogger::" in t and not state:
            # an object of a library class (or a holder of one) is state in itself, whatever is assigned to it
            bad += 1
            ck.ob("C20-O6", where, False, "%s (%s) has internal linkage in the single header: every translation unit that includes qtlogger.h has its own object of a library class, where the library has one "
                  "(handlers added through one are unknown to the other)" % (gv["name"], t[:80]), key="per-unit-state|%s" % gv["name"].split("::")[-1])
            continue
        plain = re.fullmatch(r"(?:const |unsigned |signed |volatile )*(?:bool|char|short|int|long|long long|float|double|size_t|quint\d+|qint\d+|uint|uchar|ushort|ulong)(?: ?\*)?(?:\[\d*\])*", t.strip()) or \
            re.fullmatch(r"(?:const )?(?:QRegularExpression|QString|QByteArray|QLatin1String|QChar|QStringList|QBasicAtomicInteger<int>|QBasicAtomicInt|QAtomicInt|std::atomic<bool>|std::atomic<int>|std::once_flag)", t.strip())
        if not state and not plain:
            ck.ob("C20-O6", where, None, "%s has internal linkage in the single header and a type (%s) this rule cannot classify as a cache of constants" % (gv["name"], t[:60]), key="per-unit-state|%s" % gv["name"].split("::")[-1])
            continue
        if state:
            bad += 1
            f0, w0 = state[0]
            ck.ob("C20-O6", where, False, "%s has internal linkage in the single header (one copy per translation unit) and holds state written from %s in %s: a program with two source files that include qtlogger.h "
                  "has two of them, and the inline functions the linker merges read one copy while another was written" % (gv["name"], describe(w0)[:50], f0.name.split("QtLogger::")[-1]), key="per-unit-state|%s" % gv["name"].split("::")[-1])
        else:
            ck.ob("C20-O6", where, True, "%s: one copy per translation unit, but only ever given values computed from constants (a cache): every copy holds the same" % gv["name"], key="per-unit-state|%s" % gv["name"].split("::")[-1])
    ck.ob("C20-O6", "qtlogger.h", not bad, "%d mutable static-storage variables in the single header, %d with internal linkage, none of them carrying state" % (len(total), len(cands)) if not bad else
          "%d variable(s) carry per-translation-unit state" % bad, key="per-unit-state|summary")


def on_analysis_broken(e):
    """the library units parse, the single header does not: that is the property failing, not the analysis"""
    d = getattr(e, "diag", None)
    if not d or d.get("config") != "headeronly" or not d.get("file", "").endswith("/qtlogger.h") or d.get("file", "").endswith("/src/qtlogger/qtlogger.h"):
        return None
    from engine.extract import extract
    try:
        extract(("lib",))
    except AnalysisBroken:
        return None        # the sources themselves do not parse: nothing can be said about the header
    return {"rule": "C20-O7", "rule_text": "the single header compiles in every build configuration in which the library's sources compile (same optional features defined)",
            "site": "qtlogger.h:%s" % d.get("line"), "key": "header-does-not-compile",
            "what": "the library sources compile, but a program that includes qtlogger.h with the same optional features (QTLOGGER_SYSLOG) does not: %s — "
                    "the generator expands an #include where it first occurs and drops later ones, also when the first one sits inside an #ifdef that is off" % d.get("msg")}


def unit_scoped_state(ck):
    """C20-O8: in the library a source file is a translation unit, so whatever compiler state it sets ends with it.  Pasted into the single
    header the same lines stay in force for the rest of the header and for the user's own code after `#include "qtlogger.h"`:
    an unbalanced `#pragma pack(push, 1)` changes the layout of the user's types, a `using namespace` directive at file scope changes
    their name look-up, a `#define` without `#undef` rewrites their identifiers."""
    ck.rule("C20-O8", "every source file amalgamated into qtlogger.h leaves the compiler state as it found it: #pragma pack / diagnostic / push_macro pushes are popped in the same file, no bare `#pragma pack(n)`, "
                      "no using-directive at file or namespace scope")
    src = os.path.join(REPO, "src", "qtlogger")
    files = []
    for root, _, names in os.walk(src):
        for nm in sorted(names):
            if nm.endswith((".h", ".cpp")) and nm != "qtlogger.h":
                files.append(os.path.join(root, nm))
    if len(files) < 60:
        raise AnalysisBroken("only %d source files found under src/qtlogger" % len(files))
    bad = 0
    for p in sorted(files):
        txt = open(p, errors="replace").read()
        # strip comments and string literals (a pragma in a comment is not a pragma)
        code = re.sub(r"/\*.*?\*/", lambda m: "\n" * m.group(0).count("\n"), txt, flags=re.S)
        code = re.sub(r"//[^\n]*", "", code)
        rel = os.path.relpath(p, REPO)
        depth = {"pack": 0, "diag": 0, "macro": 0, "warn": 0}
        for ln, line in enumerate(code.split("\n"), 1):
            m = re.match(r"\s*#\s*pragma\s+(.*)", line)
            u = re.match(r"\s*using\s+namespace\s+([\w:]+)\s*;", line)
            if u and not line.startswith((" " * 4, "\t")):
                bad += 1
                ck.ob("C20-O8", "%s:%d" % (rel, ln), False, "`using namespace %s;` at file scope: pasted into the single header it applies to everything the user declares after including it" % u.group(1), key="unit-state|using|%s" % os.path.basename(p))
            if not m:
                continue
            pr = m.group(1)
            if re.match(r"pack\s*\(\s*push", pr):
                depth["pack"] += 1
            elif re.match(r"pack\s*\(\s*pop", pr):
                depth["pack"] -= 1
            elif re.match(r"pack\s*\(\s*\d", pr):
                bad += 1
                ck.ob("C20-O8", "%s:%d" % (rel, ln), False, "`#pragma %s` sets the packing without saving it: in the single header the rest of the header and the user's own types are laid out packed" % pr.strip(), key="unit-state|pack|%s" % os.path.basename(p))
            elif re.match(r"(GCC|clang)\s+diagnostic\s+push", pr):
                depth["diag"] += 1
            elif re.match(r"(GCC|clang)\s+diagnostic\s+pop", pr):
                depth["diag"] -= 1
            elif re.match(r"warning\s*\(\s*push", pr):
                depth["warn"] += 1
            elif re.match(r"warning\s*\(\s*pop", pr):
                depth["warn"] -= 1
            elif re.match(r"push_macro", pr):
                depth["macro"] += 1
            elif re.match(r"pop_macro", pr):
                depth["macro"] -= 1
        for k, d in depth.items():
            if d != 0:
                bad += 1
                what = {"pack": "#pragma pack(push ...)", "diag": "#pragma GCC diagnostic push", "warn": "#pragma warning(push)", "macro": "#pragma push_macro"}[k]
                ck.ob("C20-O8", rel, False, "%s: %d `%s` without a matching pop%s" % (rel, d, what, ": the library build forgets it at the end of the translation unit, the single header keeps it for the rest of the header and for "
                      "every type the user's file declares after `#include \"qtlogger.h\"` (a struct seen packed in one file and unpacked in another)" if k == "pack" else ""), key="unit-state|%s|%s" % (k, os.path.basename(p)))
    if not bad:
        ck.ob("C20-O8", "src/qtlogger (%d files)" % len(files), True, "no source file leaves a pragma push open, sets the packing bare, or has a using-directive at file scope", key="unit-state|none")


# one named symbol, one reason: the reference instant of %{time process} has to be sampled when the program is loaded; the two configurations
# differ only for a record formatted while static initialisation is still running, where both answers are wrong (time since boot / 0.000) - DESIGN section 7.7
DYNAMIC_INIT_ALLOWED = {"g_processStartTime"}


def no_initialisation_order_dependence(ck):
    """C20-O9: the library initialises its namespace-scope objects translation unit by translation unit, in link order; the single header initialises
    them in the middle of whichever user source includes it. A namespace-scope object with DYNAMIC initialisation (environment read at start-up, a
    registrar object such as Q_COREAPP_STARTUP_FUNCTION, a table filled by a constructor) therefore has a different value - or runs a different
    number of times: once per including source file - in the two configurations whenever something observes it before main()."""
    F = ck.facts
    ck.rule("C20-O9", "every namespace-scope object of the library is constant-initialised (no start-up code whose order or multiplicity differs between the library and the single header)")
    n, bad = 0, []
    for g in F.globals.values():
        if not isinstance(g, dict) or g.get("staticlocal") or not in_lib_file(g.get("file") or ""):
            continue
        n += 1
        if g.get("constinit") is False and (g.get("name") or "").split("::")[-1] not in DYNAMIC_INIT_ALLOWED:
            bad.append(g)
    for g in bad[:4]:
        ck.ob("C20-O9", "%s:%s (%s)" % ((g.get("file") or "").split("/src/")[-1], g.get("line"), (g.get("name") or "").split("::")[-1]), False,
              "%s is a namespace-scope object with dynamic initialisation: in the library it is set up when its translation unit is, in the single header wherever (and as often as) a user's source file "
              "includes qtlogger.h - code that runs before main(), or a registrar that must run once per program, behaves differently in the two distributions" % (g.get("name") or "?"),
              key="dynamic-init|%s" % (g.get("name") or "").split("::")[-1])
    ck.require(n >= 4, "only %d namespace-scope objects found in the library sources (the active logger, the displaced handler, the pattern constants were confirmed by hand)" % n)
    if not bad:
        ck.ob("C20-O9", "src/qtlogger", True, "%d namespace-scope objects in the library sources, all constant-initialised (allow-listed with a reason: %s)" % (n, sorted(DYNAMIC_INIT_ALLOWED)), key="dynamic-init|none")


def in_lib_file(p):
    return "/src/qtlogger/" in p and not p.endswith("/src/qtlogger/qtlogger.h")
