"""C04 — stopping asynchronous logging drains and terminates: structural necessary conditions (DESIGN.md section 3, C04)."""
from engine.util import *
from engine.locks import LockFlow

LEVEL = "other"
MIN_OBLIGATIONS = 24
THOROUGH_CONFIGS = ("headeronly",)
TECHNIQUE = "must-call rules (destructor, aboutToQuit connection), lockset + dominance on resetOwnThread (drain loop exit dominates quit, lock held from the final test through quit/wait/clear), writer and reader enumeration of m_worker, loop-boundedness rule on the stop path; stale-state rule after relock (CFG projection on m_thread == null from the entry and every relock point), single-writer rule for the pending count, ownership of the global logger; re-entrancy rule (the stop is never called with the other side's lock held; accessors a running handler may call take no lock); thread affinity of the quit hook's context object; the stop path never changes Qt's message handler; condition-variable drain waits release the mutex, wake-one with several possible sleepers is definite; the pending counter the drain waits for is exact (hand-off structure rules shared with C03: one post and one increment per message, one handler run and one decrement per event); who-may-call rule on resetOwnThread (destructor and aboutToQuit hook only)"
LEVEL_TEXT = ("Decides the structural necessary conditions of a draining, terminating stop for all shutdown paths: the destructor and the aboutToQuit connection reach resetOwnThread(); the thread is told to quit "
              "only after a loop that exits when the pending count is <= 0, evaluated under the handler mutex that stays held through quit(), wait and clearing the worker (no window to post to a stopping worker); "
              "without a worker process() runs the handler synchronously; the worker pointer is written only by move (set) and reset (clear after wait) and read only under the mutex; the worker is deleted only "
              "when the thread has finished; a second move is a no-op. That the backlog is actually delivered for all worker speeds, and wall-clock bounds, are schedule-dependent and not decided. "
              "The bounded-stop clause has one open, replay-confirmed finding (known_findings.json).")
LEVEL_NOTE = "trusts QThread::quit/wait, queued delivery on the worker thread, QObject::connect; axiom: events delivered in a QThread after QCoreApplication is destroyed are discarded"
DESIGN_REF = "DESIGN.md section 3, C04"
EXPLANATION = ("Rules over every instantiation of OwnThreadHandler<B>: ~OwnThreadHandler, moveToOwnThread (and its lambdas), resetOwnThread, process. Lockset dataflow keyed by m_mutex, "
               "linear form of the drain condition, projection on m_worker / m_thread / qApp.")
TRUSTED = ["QThread::quit() stops the event loop after the events already being processed; QThread::wait(ms) is bounded", "a lambda connected to QCoreApplication::aboutToQuit runs before the application object goes away"]
ASSUMPTIONS = ["Qt axiom used for the open finding: QCoreApplication::notifyInternal2 drops events once the application object is gone, so the pending count is then never decremented"]
NOT_DECIDED = ["that every accepted message is delivered for all worker speeds and racing producers (schedule)", "wall-clock bound of the stop"]

OT = "QtLogger::OwnThreadHandler"


def run(ck):
    F = ck.facts
    from rules.oth import resolve_roles
    ck.notes.append("OwnThreadHandler fields by role: %s" % resolve_roles(F))
    ck.rule("C04-O1", "~OwnThreadHandler runs resetOwnThread() on every path")
    ck.rule("C04-O2", "moveToOwnThread: with an application object, aboutToQuit is connected to a slot that runs resetOwnThread(); the worker is deleted when the thread finishes")
    ck.rule("C04-O3", "resetOwnThread: quit() only after the drain loop left on pending <= 0, tested under m_mutex, which stays held through quit(), wait() and clearing m_worker")
    ck.rule("C04-O4", "without a worker process() runs the handler synchronously; m_worker is set only by moveToOwnThread and cleared only by resetOwnThread after the wait; every read is under m_mutex")
    ck.rule("C04-O5", "the worker is deleted only in the finished handler; moveToOwnThread is a no-op while a thread exists")
    ck.rule("C04-O6", "every loop on the stop path has an exit that does not depend solely on another thread's progress")
    insts = sorted({f.cls for f in F.fn_all(OT + "::process") if f.d.get("inst")})
    ck.require(len(insts) >= 2, "OwnThreadHandler instantiations not found")
    # ---- O1b: the global logger is destroyed at process exit (its destructor is what drains the backlog then)
    inst = F.fn("QtLogger::Logger::instance", optional=True)
    if inst is not None:
        ck.touch(inst)
        svars = [v for n in inst.find(lambda n: n.get("k") == "decl") for v in n.get("vars", []) if v.get("static")]
        news = [n for n in inst.find(lambda n: n.get("k") == "new" and "Logger" in (n.get("alloc") or ""))]
        if not svars:
            ck.ob("C04-O1", sitestr(inst), None, "Logger::instance(): no function-local static found; ownership of the global logger not recognised")
        for v in svars:
            t = (v.get("type") or "").replace("const ", "")
            owning = t.startswith(("QScopedPointer<", "std::unique_ptr<", "QSharedPointer<", "std::shared_ptr<")) or t.replace("QtLogger::", "") == "Logger"
            raw = t.rstrip().endswith("*") or t.rstrip().endswith("*const")
            ck.ob("C04-O1", sitestr(inst), True if owning else False if (raw and news) else None,
                  "the global logger is owned by a function-local static %s: its destructor (hence resetOwnThread) runs at process exit" % t.split("<")[0] if owning else
                  "the global logger is a leaked `new Logger` held in a raw static pointer: ~Logger never runs, so a process that exits without aboutToQuit never drains the backlog" if raw else
                  "static %s in Logger::instance(): ownership not recognised" % t, key="Logger::instance|leaked-singleton")
    for cls in insts:
        one(ck, cls)
    reentrancy(ck, insts)
    stays_installed_during_stop(ck)
    # what the drain waits for is the pending counter: it stands for "messages accepted and not yet through the handlers" only while every accepted message is one
    # posted event, counted before the post and counted down after the handler ran - the hand-off structure C03 decides, claimed here under C04's own rule
    ck.rule("C04-O9", "the counter the drain waits for is exact: one increment and one posted event per accepted message, one handler run and one decrement per event, no other writer "
                      "(a batch queue with a coalesced wake-up, a second counter or a conditional post make 'pending == 0' say something else than 'everything accepted has been processed')")
    from rules.c03 import handoff, only_stop_paths_stop
    for f_ in sorted([F.flat(f) for f in F.fn_all(OT + "::process") if f.d.get("inst")], key=lambda f: f.name):
        handoff(ck, f_, rid="C04-O9")
    # the stop is only begun by the destructor and the aboutToQuit hook: a caller of its own has usually changed something first (cleared the pipeline the drain is to
    # deliver into, taken a lock the worker needs)
    only_stop_paths_stop(ck, rid="C04-O10")


def reentrancy(ck, insts):
    """the stop path waits for the worker, and the synchronous path runs foreign code (the handlers) under the hand-off mutex: neither
    may meet a lock the other side needs"""
    from engine.locks import LockFlow, direct_acquires
    F = ck.facts
    ck.rule("C04-O7", "no self-deadlock around the stop: resetOwnThread() is never called with the logger's mutex held (the worker it waits for may log and need it); "
                      "the const status accessors (ownThread, ownThreadIsRunning) do not take the hand-off mutex, which process() holds while handlers run and ask for them (HttpSink::send does)")
    n = 0
    for cls in insts:
        tag = "OwnThreadHandler<%s>" % cls.split("<", 1)[1].rstrip(">").split("::")[-1]
        for f in sorted((x for x in F.fns.values() if x.cls == cls and x.body is not None and x.d.get("kind") == "method" and x.d.get("constm")), key=lambda x: x.sig):
            acq = {a for a in direct_acquires(F, f) if a.endswith("::m_mutex") or "mutex" in a.lower()}
            n += 1
            ck.touch(f)
            ck.ob("C04-O7", sitestr(f), not acq, "%s: %s() takes no lock" % (tag, f.name.split("::")[-1]) if not acq else
                  "%s: the accessor %s() acquires %s - the non-recursive mutex process() holds while it runs the handlers synchronously (after a stop, or before asynchronous mode is on): "
                  "a handler that asks for the logger's mode from inside the pipeline (HttpSink::send does) blocks for ever, and so does the exit of the process" % (tag, f.name.split("::")[-1], sorted(acq)),
                  key="%s|locks-handoff-mutex" % f.name.split("::")[-1])
    ck.require(n >= 2, "status accessors of OwnThreadHandler not found")
    # callers of resetOwnThread outside the class: lockset at the call
    resets = {f.id for f in F.fns.values() if f.cls in insts and f.name.endswith("::resetOwnThread")}
    for f in sorted(F.fns.values(), key=lambda x: (x.file, x.line, x.sig)):
        if f.body is None or f.cls in insts or not in_lib(f.file):
            continue
        calls = [c for c in f.calls() if c.get("fn") in resets]
        if not calls:
            continue
        ck.touch(f)
        try:
            lf = LockFlow(F, f)
        except Exception:
            ck.ob("C04-O7", sitestr(f, calls[0]), None, "lock state at the call of resetOwnThread() in %s not computed" % f.name)
            continue
        for c in calls:
            held = [m for m in lf.held_set(c)] if hasattr(lf, "held_set") else [m for m in ("QtLogger::Logger::m_mutex",) if lf.held_at(c, m)]
            ck.ob("C04-O7", sitestr(f, c), not held, "%s stops the own thread without holding a lock of its own" % f.name.split("::", 1)[-1] if not held else
                  "%s calls resetOwnThread() while holding %s: the stop waits for the worker, and a handler that logs on the worker thread needs that mutex in Logger::processMessage - neither ever proceeds" %
                  (f.name.split("::", 1)[-1], held), key="%s|reset-under-lock" % f.name.split("::")[-1])


def one(ck, cls):
    F = ck.facts
    tag = "OwnThreadHandler<%s>" % cls.split("<", 1)[1].rstrip(">").split("::")[-1]
    get = lambda nm: [F.flat(f) for f in F.fns.values() if f.cls == cls and f.name == cls + "::" + nm]
    dt = get("~OwnThreadHandler")
    mv = get("moveToOwnThread")
    rs = get("resetOwnThread")
    pr = get("process")
    ck.require(len(dt) == 1 and len(mv) == 1 and len(rs) == 1 and len(pr) == 1, "%s: members not found" % tag)
    dt, mv, rs, pr = dt[0], mv[0], rs[0], pr[0]
    ck.touch(dt, mv, rs, pr)
    W, T, M, P = OT + "::m_worker", OT + "::m_thread", OT + "::m_mutex", OT + "::m_pendingCount"
    is_reset = lambda n: n.get("k") == "call" and n.get("fn") == rs.id
    # ---- O1
    g = Graph(dt)
    c = [n for n in dt.calls() if is_reset(n)]
    ok = bool(c) and g.must_pass(set(g.sites_of_nodes(c)))
    ck.ob("C04-O1", sitestr(dt), ok, "%s: the destructor stops the own thread on every path" % tag if ok else "%s: the destructor does not call resetOwnThread(): the thread outlives its handler" % tag, key="~OwnThreadHandler|no-reset")
    # the count the drain loop waits on means "accepted and not yet delivered" only if nobody resets it: a store to it abandons
    # whatever is still queued (quit() then ends the event loop with the events undelivered)
    STORES = ("storeRelease", "store", "storeRelaxed", "storeSeqCst", "operator=", "fetchAndStoreOrdered", "fetchAndStoreRelease", "fetchAndStoreAcquire", "fetchAndStoreRelaxed", "exchange",
              "testAndSetOrdered", "testAndSetRelease", "testAndSetAcquire", "testAndSetRelaxed", "compare_exchange_strong", "compare_exchange_weak")
    for f_ in F.units_of(lambda f: bool(f.cls) and f.cls.startswith(cls)):
        if f_.d.get("kind") == "ctor":
            continue
        for n_ in f_.calls():
            if is_field(n_.get("obj") if n_.get("ck") == "member" else (n_.get("args") or [None])[0], P) and (name_is(n_.get("callee"), STORES) or n_.get("op") == "="):
                ck.ob("C04-O3", sitestr(f_, n_), False, "%s: the pending count is overwritten (%s) in %s: the drain loop then ends although accepted messages are still queued, and quit() discards them" %
                      (tag, describe(n_)[:50], strip_tmpl(f_.name).split("::")[-1]), key="m_pendingCount|reset|%s" % strip_tmpl(f_.name).split("::")[-1])
    # ---- O2
    g = Graph(mv)
    conns = [n for n in mv.calls("QObject::connect")]
    quitc = [n for n in conns if any(x.get("k") == "ref" and (x.get("name") or "").endswith("QCoreApplication::aboutToQuit") for x in walk(n["args"][1]))]
    isapp = lambda n: is_call(n, "QCoreApplication::instance")
    if len(quitc) != 1:
        ck.ob("C04-O2", sitestr(mv), False if not quitc else None, "%s: aboutToQuit is connected %d times" % (tag, len(quitc)), key="moveToOwnThread|no-aboutToQuit")
    else:
        q = quitc[0]
        keep = g.projector(atoms((lambda n: is_this_field(n, T) or (n.get("conv") and is_this_field(n.get("obj"), T)), False), (isapp, True)))
        okm = g.must_pass({g.site_of(q)}, keep=keep)
        sender = is_call(q["args"][0], "QCoreApplication::instance")
        lam = [x for x in walk(q) if x.get("k") == "lambda"]
        lf = F.fns.get(lam[0]["fn"]) if lam else None
        okl = False
        if lf is not None:
            ck.touch(lf)
            gl = Graph(lf)
            cc = [n for n in lf.calls() if is_reset(n)]
            okl = bool(cc) and gl.must_pass(set(gl.sites_of_nodes(cc)))
        ck.ob("C04-O2", sitestr(mv, q), okm and sender and okl, "%s: with an application object aboutToQuit -> resetOwnThread() is connected on every path" % tag if (okm and sender and okl) else
              "%s: aboutToQuit connection: always-made=%s, sender-is-qApp=%s, slot-resets=%s" % (tag, okm, sender, okl), key="moveToOwnThread|aboutToQuit")
    if len(quitc) == 1:
        # where the hook runs: a functor connected with a context object is queued into the context object's thread. A thread object
        # created by moveToOwnThread() called from a secondary thread lives in that thread - which may never run an event loop - unless it
        # is re-homed to the application's thread first (or the connection has no context object / is explicitly direct)
        q = quitc[0]
        qa = [a for a in q.get("args", []) if a.get("k") != "defaultarg"]
        has_ctx = len(qa) >= 4 and any(x.get("k") == "lambda" for x in walk(qa[3])) or (len(qa) >= 4 and not any(x.get("k") == "lambda" for x in walk(qa[2])))
        direct = any(const_int(a) == 1 and "ConnectionType" in (skip_copies(a).get("type") or "") for a in qa[3:])
        if has_ctx and not direct:
            ctx = skip_copies(qa[2])
            ctx_app = is_call(ctx, "QCoreApplication::instance")
            def ident(e_):
                """the object an expression designates: the thread field, or a local / parameter (a helper's `thread`)"""
                for x in walk(e_ or {}):
                    if is_this_field(x, T):
                        return ("field", T)
                for x in walk(e_ or {}):
                    if x.get("k") == "ref" and x.get("dk") in ("local", "param") and "QThread" in (x.get("type") or ""):
                        return ("var", x.get("decl"))
                return None
            cid = ident(ctx)
            ctx_is_thread = cid is not None
            moves = [n for n in mv.calls() if name_is(n.get("callee"), ("QObject::moveToThread", "moveToThread")) and ident(n.get("obj")) == cid and cid is not None
                     and any(is_call(x, "QCoreApplication::instance") or (x.get("k") == "ref" and (x.get("name") or "") == "qApp") for x in walk(n.get("args", [{}])[0]))]
            differ = lambda n: True if (n.get("k") == "binop" and n.get("op") == "!=" and all(any(is_call(x, ("QObject::thread", "thread")) for x in walk(y or {})) for y in (n.get("lhs"), n.get("rhs")))) else \
                (False if (n.get("k") == "binop" and n.get("op") == "==" and all(any(is_call(x, ("QObject::thread", "thread")) for x in walk(y or {})) for y in (n.get("lhs"), n.get("rhs")))) else None)
            keep2 = g.projector(atoms((lambda n: is_this_field(n, T) or (n.get("conv") and is_this_field(n.get("obj"), T)), False), (isapp, True)))
            def keep3(e, keep2=keep2, pr=g.projector(differ)):
                return keep2(e) and pr(e)
            rehomed = bool(moves) and g.must_pass(set(g.sites_of_nodes(moves)), keep=keep3, to=g.site_of(q))
            okctx = ctx_app or (ctx_is_thread and rehomed)
            ck.ob("C04-O2", sitestr(mv, q), True if okctx else False if ctx_is_thread else None,
                  "%s: the quit hook's context object lives in the application's thread (it is re-homed there before the connection is made)" % tag if okctx else
                  "%s: the quit hook is queued into the thread its context object %s lives in, i.e. the thread that called moveToOwnThread(); called from a secondary thread without an event loop "
                  "the hook never runs: exec() returns with the backlog undelivered and the worker still running" % (tag, describe(ctx)[:30]), key="moveToOwnThread|hook-thread")
    fin = [n for n in conns if any(x.get("k") == "ref" and (x.get("name") or "").endswith("QThread::finished") for x in walk(n["args"][1]))]
    dels = []
    for n in fin:
        for x in walk(n):
            if x.get("k") == "lambda":
                lf = F.fns.get(x["fn"])
                if lf is not None and lf.find(lambda y: y.get("k") == "delete"):
                    dels.append((n, lf))
    ok = len(dels) == 1
    ck.ob("C04-O2", sitestr(mv), ok, "%s: the worker is deleted by a slot of QThread::finished" % tag if ok else "%s: %d finished-slots delete the worker" % (tag, len(dels)), key="moveToOwnThread|worker-deletion")
    if ok:
        n, lf = dels[0]
        d = lf.find(lambda y: y.get("k") == "delete")[0]
        tgt = skip_copies(d.get("e"))
        # the captured pointer is the worker created in this call
        cap = [x for x in walk(n) if x.get("k") == "lambda"][0]
        ci = cap.get("capture_inits", [])
        src = deref_local(mv, ci[0]) if ci else None
        okc = src is not None and (is_this_field(src, W) or (skip_copies(src).get("k") == "new"))
        ck.ob("C04-O5", sitestr(lf, d), okc, "%s: what is deleted is this handler's worker" % tag if okc else "%s: the finished slot deletes %s" % (tag, describe(src)), key="moveToOwnThread|deletes-other")
    # deletes elsewhere
    in_cls = lambda f: bool(f.cls and f.cls.startswith(cls)) or bool(f.lambda_of and F.fns.get(f.lambda_of) is not None and (F.fns[f.lambda_of].cls or "").startswith(cls))
    for f in F.units_of(in_cls):
        if True:
            for d in f.find(lambda y: y.get("k") == "delete"):
                if dels and f.id == dels[0][1].id:
                    continue
                ck.ob("C04-O5", sitestr(f, d), False, "%s: the worker (or another object) is also deleted in %s" % (tag, f.name), key="delete|%s" % strip_tmpl(f.name).split("::")[-1])
    # no-op when a thread exists
    ist = lambda n: is_this_field(n, T) or (n.get("k") == "call" and n.get("conv") and is_this_field(n.get("obj"), T))
    keep = g.projector(atom_eq(ist, True))
    live = g.live(keep)
    news = [x for x in mv.find(lambda y: y.get("k") == "new")]
    bad = [x for x in news if g.site_of(x) in live]
    ck.ob("C04-O5", sitestr(mv), not bad and bool(news), "%s: a second moveToOwnThread() while a thread exists creates nothing" % tag if not bad else "%s: a second moveToOwnThread() creates another thread/worker" % tag, key="moveToOwnThread|second-move")
    # ---- O3
    g = Graph(rs)
    lf_ = LockFlow(F, rs, g)
    quits = [n for n in rs.calls("QThread::quit")]
    waits = [n for n in rs.calls("QThread::wait")]
    clears = [n for n in rs.find(lambda y: y.get("k") == "binop" and y.get("op") == "=" and is_this_field(y.get("lhs"), W) and skip_copies(y.get("rhs")).get("k") == "null_lit")]
    psym0 = lambda n: (n.get("k") == "call" and is_this_field(n.get("obj"), P) and name_is(n.get("callee"), ("loadAcquire", "loadRelaxed", "load", "operator int"))) or is_this_field(n, P)
    terms = [n for n in rs.calls("QThread::terminate") if g.site_of(n) in g.live()]
    if terms and not [l for l in find_loops(rs) if l.get("cond") and any(psym0(x) for x in walk(l["cond"]))]:
        ck.ob("C04-O3", sitestr(rs, terms[0]), False, "%s: the stop terminates the thread after a time-out without ever having waited for the backlog: with a backlog that takes longer than the time-out "
              "(slow sink, burst) the worker is killed in the middle of a delivery and everything still queued is dropped" % tag, key="resetOwnThread|terminate-with-backlog")
    ck.require(len(quits) == 1 and waits and len(clears) == 1, "%s::resetOwnThread: quit/wait/clear anchors not found (%d/%d/%d)" % (tag, len(quits), len(waits), len(clears)))
    qs = g.site_of(quits[0])
    psym = lambda n: "pending" if (n.get("k") == "call" and is_this_field(n.get("obj"), P) and name_is(n.get("callee"), ("loadAcquire", "loadRelaxed", "load", "operator int"))) or is_this_field(n, P) else None
    loops = [l for l in find_loops(rs) if l.get("cond") and any(psym(x) for x in walk(l["cond"]))]
    if len(loops) != 1:
        ck.ob("C04-O3", sitestr(rs), False if not loops else None, "%s: %d loops wait for the pending count" % (tag, len(loops)), key="resetOwnThread|no-drain-loop")
    else:
        loop = loops[0]
        # a conjunction: the loop is left when any conjunct fails; the pending conjunct decides the drain
        conj = []
        stack = [skip_copies(loop["cond"])]
        while stack:
            x = stack.pop()
            if isinstance(x, dict) and x.get("k") == "binop" and x.get("op") == "&&":
                stack += [skip_copies(x.get("rhs")), skip_copies(x.get("lhs"))]
            else:
                conj.append(x)
        pend = [x for x in conj if any(psym(y) for y in walk(x))]
        others = [x for x in conj if x not in pend]
        for x in others:
            live_guard = any(is_call(y, ("QCoreApplication::instance", "QCoreApplication::closingDown", "QThread::isRunning")) for y in walk(x))
            ck.ob("C04-O3", sitestr(rs, x), True if live_guard else False, "%s: the drain is abandoned only when delivery has become impossible (%s)" % (tag, describe(x)) if live_guard else
                  "%s: the drain loop can be left through %s while messages are still pending: accepted messages are dropped" % (tag, describe(x)), key="resetOwnThread|drain-abandoned")
        cf = comparison_form(pend[0], psym) if len(pend) == 1 else None
        okc = cf is not None and cf[1] == ">=" and cf[0].get("pending") == 1 and cf[0].get("", 0) <= -1 + 0 and cf[0].get("", 0) >= -1
        ck.ob("C04-O3", sitestr(rs, loop["cond"]), okc if cf is not None else None, "%s: the drain loop continues while pending >= 1 (leaves only at pending <= 0)" % tag if okc else
              "%s: drain condition %s leaves while messages are still pending" % (tag, describe(loop["cond"])), key="resetOwnThread|drain-condition")
        if len(pend) != 1:
            ck.ob("C04-O3", sitestr(rs, loop["cond"]), None, "%s: drain condition not recognised" % tag)
            return
        cs = g.site_of(pend[0])
        ck.require(cs is not None, "drain test has no CFG element")
        # quit reached only when the drain test failed (or a liveness guard did): with every conjunct true, the
        # path from the test cannot reach quit() without testing again
        okd = g.dominated(qs, {cs}) and not g.can_reach(qs, cs)
        conj_ids = {x["id"] for x in conj}
        keep_all = g.projector(lambda n: True if n.get("id") in conj_ids else None)
        r = g.reach([cs], blocked={cs}, keep=keep_all, include_start=False)
        exit_only = qs not in r
        ck.ob("C04-O3", sitestr(rs, quits[0]), okd and exit_only, "%s: quit() is reached only after the drain test found nothing pending" % tag if (okd and exit_only) else
              "%s: quit() can be reached while messages are pending" % tag, key="resetOwnThread|quit-before-drain")
        # the worker the loop waits for may itself need the hand-off mutex (a handler that logs through the same logger comes back into
        # process() on the worker thread): somewhere in every iteration the mutex must be free
        body_keys = [k_ for k_ in (g.site_of(x) for x in walk(loop.get("body") or {}) if isinstance(x, dict) and x.get("k") in ("call", "binop", "unop")) if k_ is not None]
        if body_keys:
            free = [k_ for k_ in body_keys if not lf_.held_at(k_, M)]
            if not free:
                # a scope guard of the repository that gives the mutex away in its constructor (struct Unlocked { Unlocked(l) { l.unlock(); } ~Unlocked() { l.relock(); } })
                for x in walk(loop.get("body") or {}):
                    if isinstance(x, dict) and x.get("k") == "construct" and F.fns.get(x.get("fn")) is not None and F.fns[x["fn"]].body is not None:
                        ct_ = F.fns[x["fn"]]
                        if any(strip_tmpl(c_.get("callee") or "").split("::")[-1] == "unlock" for c_ in ct_.calls()):
                            free = [g.site_of(x) or True]
            # a condition-variable wait gives the mutex away while it sleeps (QWaitCondition::wait(&m), std::condition_variable::wait(lock))
            cvw = [x for x in walk(loop.get("body") or {}) if isinstance(x, dict) and x.get("k") == "call" and strip_tmpl(x.get("callee") or "") in
                   ("QWaitCondition::wait", "std::condition_variable::wait", "std::condition_variable_any::wait", "std::condition_variable::wait_for", "std::condition_variable_any::wait_for")]
            if cvw and not free:
                free = [g.site_of(cvw[0]) or True]
            if cvw:
                # several stops can sleep on the condition at the same time (the aboutToQuit hook on the main thread and an explicit resetOwnThread() on
                # another): each of them has to be woken when the backlog is empty
                cv = skip_copies(cvw[0].get("obj") or {})
                cvname = strip_tmpl(cv.get("name") or "") if isinstance(cv, dict) else ""
                wakes = [(f_, c_) for f_, c_ in F.callers_of(lambda n_: n_.get("k") == "call" and strip_tmpl(n_.get("callee") or "") in ("QWaitCondition::wakeOne", "QWaitCondition::wakeAll", "QWaitCondition::notify_one",
                                                                                                                                          "QWaitCondition::notify_all", "std::condition_variable::notify_one", "std::condition_variable::notify_all"))
                         if strip_tmpl((skip_copies(c_.get("obj") or {}) or {}).get("name") or "") == cvname]
                ones = [(f_, c_) for f_, c_ in wakes if strip_tmpl(c_.get("callee") or "").split("::")[-1] in ("wakeOne", "notify_one")]
                timed = len([a_ for a_ in cvw[0].get("args", []) if a_.get("k") != "defaultarg"]) >= 2
                if ones and not timed:
                    ck.ob("C04-O6", sitestr(ones[0][0], ones[0][1]), False, "%s: the drain wait sleeps on %s and the worker wakes ONE sleeper when the backlog is empty: with two overlapping stops (the application-quit hook "
                          "and an explicit resetOwnThread() on another thread) one is woken and finishes, the other sleeps forever - the stop never returns" % (tag, cvname.split("::")[-1] or "a condition variable"),
                          key="resetOwnThread|wake-one")
                elif not wakes:
                    ck.ob("C04-O6", sitestr(rs, cvw[0]), None if timed else False, "%s: nothing in the library wakes the condition the drain loop sleeps on" % tag, key="resetOwnThread|wake-one")
            ck.ob("C04-O6", sitestr(rs, loop["cond"]), bool(free), "%s: the hand-off mutex is released inside every iteration of the drain loop" % tag if free else
                  "%s: the drain loop waits for the pending count with the hand-off mutex held all the time: a handler that logs through the same logger while the worker delivers a backlog message "
                  "blocks in process() on the worker thread, its message stays pending, the count never reaches 0 and the stop never returns" % tag, key="resetOwnThread|drain-holds-mutex")
        held_c = lf_.held_at(cs, M)
        ck.ob("C04-O3", sitestr(rs, pend[0]), held_c, "%s: the pending count is tested with the mutex held (producers cannot post in between)" % tag if held_c else "%s: the drain test runs without the mutex" % tag, key="resetOwnThread|test-unlocked")
    for n, what in [(quits[0], "quit()")] + [(w, "wait()") for w in waits] + [(clears[0], "m_worker = nullptr")]:
        h = lf_.held_at(n, M)
        ck.ob("C04-O3", sitestr(rs, n), h, "%s: %s under the mutex" % (tag, what) if h else "%s: %s without the mutex: a producer can post to a stopping worker" % (tag, what), key="resetOwnThread|unlocked|%s" % what)
    okw = all(g.dominated(g.site_of(clears[0]), {g.site_of(w)}) or g.dominated(g.site_of(clears[0]), set(g.sites_of_nodes(waits))) for w in waits[:1]) and g.dominated(g.site_of(clears[0]), {qs})
    ck.ob("C04-O4", sitestr(rs, clears[0]), okw, "%s: the worker pointer is cleared only after quit() and wait()" % tag if okw else "%s: the worker pointer is cleared before the thread has stopped" % tag, key="resetOwnThread|clear-before-wait")
    okq = all(g.dominated(g.site_of(w), {qs}) for w in waits)
    ck.ob("C04-O3", sitestr(rs, waits[0]), okq, "%s: wait() follows quit()" % tag, key="resetOwnThread|wait-before-quit")
    # what was known about m_thread before the mutex was released is stale after the relock: two overlapping stops (aboutToQuit
    # and an explicit reset, two threads) both pass the first test, and the later one comes back from the wait when the earlier
    # one has cleared the pointer. Every use of the thread object must be preceded by a null test made since the last (re)lock.
    is_t = lambda n: True if (is_this_field(n, T) or (isinstance(n, dict) and n.get("conv") and is_this_field(n.get("obj"), T))) else None
    null_world = g.projector(lambda n: False if is_t(n) else None)
    derefs = [n for n in rs.calls() if n.get("ck") == "member" and (n.get("callee") or "").startswith("QThread::") and is_this_field(unwrap_ptr(n.get("obj")), T)]
    relocks = [n for n in rs.calls() if name_is(n.get("callee"), ("QMutexLocker::relock", "QMutex::lock", "relock", "lock")) and n.get("ck") == "member"]
    ck.require(derefs, "%s::resetOwnThread: no use of the thread object found" % tag)
    starts = [("entry", g.entry)] + [("the relock at line %d" % n.get("l", 0), g.site_of(n)) for n in relocks if g.site_of(n) is not None]
    stale = []
    for what, st in starts:
        r = g.reach([st], keep=null_world, include_start=False)
        for d in derefs:
            if g.site_of(d) in r:
                stale.append((what, d))
    ck.ob("C04-O3", sitestr(rs, stale[0][1]) if stale else sitestr(rs, derefs[0]), not stale,
          "%s: every use of the thread object follows a null test made since the mutex was last (re)acquired (%d uses, %d lock points)" % (tag, len(derefs), len(starts)) if not stale else
          "%s: %s is reached from %s without testing m_thread again: a second, overlapping stop returns from the wait after the first one cleared the pointer and dereferences null" %
          (tag, describe(stale[0][1])[:40], stale[0][0]), key="resetOwnThread|stale-thread")
    # ---- O4
    g = Graph(pr)
    lfp = LockFlow(F, pr, g)
    isw = lambda n: is_this_field(n, W)
    base = [n for n in pr.calls() if n.get("qualified") and name_is(n.get("callee"), "process") and skip_copies(n.get("obj")).get("k") == "this"]
    keep = g.projector(atom_eq(isw, False))
    ok = bool(base) and g.must_pass(set(g.sites_of_nodes(base)), keep=keep)
    ck.ob("C04-O4", sitestr(pr), ok, "%s: without a worker the message is processed synchronously on every path (never dropped)" % tag if ok else "%s: without a worker a message can be dropped" % tag, key="process|dropped-without-worker")
    rets = returns(pr)
    ok = all(const_int(r.get("e")) == 1 for r in rets) and bool(rets)
    ck.ob("C04-O4", sitestr(pr), ok, "%s: process() reports success" % tag, key="process|return")
    writers = {}
    for f in F.units_of(in_cls):
        for n in f.find(lambda y: y.get("k") == "binop" and y.get("op") == "=" and is_this_field(y.get("lhs"), W)):
            writers.setdefault(strip_tmpl(f.name).split("::")[-1], []).append((f, n))
        # reads under the mutex
        rd = [x for x in f.all_nodes() if is_this_field(x, W)]
        if rd and f.cfg is not None and not f.lambda_of:
            lff = LockFlow(F, f)
            for x in rd:
                k_ = lff.g.site_of(x)
                if k_ is None:
                    continue
                h = any(m == M for m, _ in lff.IN.get(k_, ()))
                if not h:
                    ck.ob("C04-O4", sitestr(f, x), False, "%s: m_worker is accessed without the mutex in %s" % (tag, strip_tmpl(f.name).split("::")[-1]), key="m_worker|unlocked-access|%s" % strip_tmpl(f.name).split("::")[-1])
    okw = set(writers) == {"moveToOwnThread", "resetOwnThread"}
    ck.ob("C04-O4", "ownthreadhandler.h (%s::m_worker)" % tag, okw, "m_worker is written by moveToOwnThread (set) and resetOwnThread (clear) only" if okw else "m_worker is written in %s" % sorted(writers), key="m_worker|writers")
    # ---- O5b / O3b: what the worker does around the handler run
    from rules.oth import pending_covers_inflight, worker_runs_unlocked
    pending_covers_inflight(ck, cls, tag, "C04-O3")
    worker_runs_unlocked(ck, cls, tag, "C04-O6")
    from rules.oth import creation_is_atomic
    creation_is_atomic(ck, cls, tag, "C04-O5")
    # ---- O6 bounded stop
    g = Graph(rs)
    for l in find_loops(rs):
        bounded, why = loop_bounded(rs, l)
        ck.ob("C04-O6", sitestr(rs, l), bounded, "%s: the loop at line %d has an own exit (%s)" % (tag, l.get("l", 0), why) if bounded else
              "%s: the drain loop waits for another thread's progress only (%s): if the worker never processes its events (QCoreApplication already destroyed, no event loop) the stop never returns" % (tag, why),
              key="resetOwnThread|unbounded-wait")
    ck.ob("C04-O6", sitestr(rs, waits[0]), const_int(waits[0]["args"][0]) is not None and const_int(waits[0]["args"][0]) > 0 if waits[0].get("args") else False,
          "%s: the first wait() has a timeout and terminate() as a last resort" % tag, key="resetOwnThread|wait-unbounded")


def loop_bounded(fn, loop):
    """a loop is bounded if its condition (or a guarded break/return in its body) depends on a local that the body writes,
    on a timer, or on a bounded wait; a condition that only reads shared state written by other threads is not"""
    body_nodes = list(walk(loop.get("body"))) if isinstance(loop.get("body"), dict) else []
    written_locals = set()
    for n in body_nodes:
        if n.get("k") == "ref" and n.get("dk") == "local" and (write_kind(fn, n) or assignment_target(fn, n)[0] is not None):
            written_locals.add(n["decl"])
    inc = loop.get("inc")
    if isinstance(inc, dict):
        for n in walk(inc):
            if n.get("k") == "ref" and n.get("dk") == "local":
                written_locals.add(n["decl"])
    conds = [loop.get("cond")] + [n.get("cond") for n in body_nodes if n.get("k") == "if" and any(x.get("k") in ("break", "return") for x in walk(n.get("then")))]
    for c in conds:
        if not isinstance(c, dict):
            continue
        for x in walk(c):
            if x.get("k") == "ref" and x.get("dk") == "local" and x.get("decl") in written_locals:
                return True, "counter/deadline local %s" % x.get("name")
            if x.get("k") == "call" and name_is(x.get("callee"), ("hasExpired", "elapsed", "remainingTime", "isForever", "QThread::wait", "QCoreApplication::closingDown", "QCoreApplication::instance")):
                return True, "guard %s" % (x.get("callee") or "").split("::")[-1]
    reads = sorted({describe(x) for c in conds if isinstance(c, dict) for x in walk(c) if x.get("k") in ("member", "call")})
    return False, "condition reads only %s" % reads[:3]


def stays_installed_during_stop(ck):
    """messages logged while asynchronous logging is being stopped are delivered (by the worker before it ends, synchronously afterwards):
    the stop path — resetOwnThread() and whatever overrides or wraps it — never changes Qt's message handler"""
    F = ck.facts
    ck.rule("C04-O8", "no function called resetOwnThread (the base one or an override) and nothing they reach calls qInstallMessageHandler: the logger stays Qt's message handler for the whole stop")
    stops = [f for f in F.fns.values() if f.body is not None and f.name.split("::")[-1] == "resetOwnThread" and in_lib(f.file)]
    ck.require(stops, "no resetOwnThread found")
    reach = F.reachable_from(stops, virtual=True)
    bad = 0
    for i_ in sorted(reach):
        f_ = F.fns.get(i_)
        if f_ is None or f_.body is None or not in_lib(f_.file):
            continue
        for q in f_.calls("qInstallMessageHandler"):
            bad += 1
            ck.ob("C04-O8", sitestr(f_, q), False, "%s, part of the stop path, changes Qt's message handler (%s): the handler is process-wide, so every message any thread logs while the backlog drains "
                  "goes to that handler and never reaches the sinks" % (f_.name.split("QtLogger::")[-1], describe(q)[:50]), key="stop|uninstalls|%s" % f_.name.split("::")[-1])
    if not bad:
        ck.ob("C04-O8", sitestr(stops[0]), True, "the %d resetOwnThread functions and the %d functions they reach never call qInstallMessageHandler" % (len(stops), len(reach)), key="stop|uninstalls|none")
