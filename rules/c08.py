"""C08 — compressed files are valid gzip of exactly the rotated log: writer's byte layout vs RFC 1952 / RFC 1950 / qCompress (DESIGN.md section 3, C08)."""
from engine.util import *
from rules.rfs import *

LEVEL = "other"
MIN_OBLIGATIONS = 16
THOROUGH_CONFIGS = ("headeronly",)
TECHNIQUE = "byte-layout extraction from the AST of the gzip writer (ordered constant writes, linear slice arithmetic, endian conversion, CRC-32 parameters and update idiom) compared with the RFC 1952 / RFC 1950 / qCompress layout table; ordering by dominance; hand-over rule (the sink's own QFile is closed or flushed before compressFile reads the renamed file); who-may-delete allow-list; CRC-32 decided semantically: table entries computed from the source, per-byte update evaluated on 256 bytes x 33 basis registers after a GF(2)-affinity check; the compression path shares no scratch state between sinks (static-variable effect rule over the call-graph closure of compressFile: assignments and escapes to non-const pointer / reference parameters)"
LEVEL_TEXT = ("The gzip writer is a fixed byte layout, so its correctness for all contents is the agreement of the layout extracted from the code with the format's table: 10-byte header "
              "1f 8b 08 00 + MTIME(4) + XFL + OS, payload = qCompress output minus its 4-byte length prefix, 2-byte zlib header and 4-byte Adler-32, trailer CRC-32 then ISIZE (little endian, "
              "4 bytes each), CRC-32 with the reflected polynomial EDB88320, init/final FFFFFFFF and the standard table update; the file is rewound between the CRC pass and the read; the original "
              "is removed only after the output is closed. The correctness of zlib's deflate stream itself is trusted.")
LEVEL_NOTE = "trusts qCompress = 4-byte big-endian length + RFC 1950 zlib stream (documented by Qt) and zlib's deflate"
DESIGN_REF = "DESIGN.md section 3, C08"
EXPLANATION = ("Static comparison of compressFile()/calculateCRC32() with the format tables: constants written in dominance order, pointer/length arithmetic in linear normal form, "
               "provenance of the trailer words through single-assignment locals, loop bounds and update expression of the CRC table, and the seek/close/remove ordering on the CFG.")
TRUSTED = ["RFC 1952 member layout", "qCompress(data) = 4-byte big-endian uncompressed length + zlib stream (2-byte header, deflate data, 4-byte Adler-32)", "QFile::readAll reads from the current position to the end"]
ASSUMPTIONS = ["rotated files are smaller than 4 GiB or ISIZE is their size modulo 2^32 as RFC 1952 prescribes"]
NOT_DECIDED = ["that zlib's deflate output decodes to its input", "I/O errors while writing the compressed file (disk full)"]


def run(ck):
    S = Sink(ck)
    F = ck.facts
    ck.rule("C08-O1", "header: exactly the 10 bytes 1f 8b 08 00 | MTIME x4 | XFL | OS before the payload (FLG = 0: no optional fields are written)")
    ck.rule("C08-O2", "payload: bytes [6, size-4) of qCompress(readAll())")
    ck.rule("C08-O3", "trailer: CRC-32 of the input then its size mod 2^32, each 4 bytes through qToLittleEndian, after the payload")
    ck.rule("C08-O4", "CRC-32: polynomial 0xEDB88320, init and final xor 0xFFFFFFFF, table[(crc ^ byte) & 0xFF] ^ (crc >> 8) over every byte read, 256-entry table built by 8 shift/xor steps")
    ck.rule("C08-O6", "the file handed to compressFile() is complete on disk: rotate() closes or flushes the sink's own buffered QFile on every path before the rename and before the compression")
    ck.require(closed_before_handover(ck, S, "C08-O6", "C08") >= 2, "rotate(): rename / compressFile hand-over sites not found")
    # the only place an uncompressed rotated file may vanish for the sake of compression is compressFile(), after its copy is complete
    from rules.c05 import allowed_destructive
    for f_, n_, k_ in S.destructive_sites():
        if k_ != "remove":
            continue
        ok_, why_ = allowed_destructive(S, f_, n_, k_)
        ck.ob("C08-O6", sitestr(f_, n_), ok_, "%s: %s" % (describe(n_)[:50], why_) if ok_ else
              "%s removes a file outside compressFile()/retention (%s): an uncompressed rotated file can disappear although its compressed copy is not known to be complete" %
              (strip_tmpl(f_.name).split("::")[-1], why_), key="remove|%s|%s" % (strip_tmpl(f_.name).split("::")[-1], "ok" if ok_ else why_))
    single_deflate_stream(ck, S, "C08-O2")
    ck.rule("C08-O5", "ordering: rewind between the CRC pass and readAll; every write precedes close of the output; the original is removed only after that close; early returns precede any write or remove")
    fn = S.m["compressFile"]
    g = S.g(fn)
    # locals
    def local_of_class(cls, pred=None):
        out = []
        for n in fn.find(lambda n: n.get("k") == "decl"):
            for v in n.get("vars", []):
                i = skip_copies(v.get("init")) if isinstance(v.get("init"), dict) else None
                while isinstance(i, dict) and i.get("k") == "cast":
                    i = skip_copies(i.get("e"))
                if isinstance(i, dict) and i.get("k") == "construct" and i.get("class") == cls and (pred is None or pred(i)):
                    out.append((v, i, n))
        return out
    files = local_of_class("QFile") + local_of_class("QSaveFile")
    ck.require(len(files) == 2, "compressFile no longer uses two QFile/QSaveFile locals")
    inp = [f for f in files if is_ref_to(f[1]["args"][0], fn.params[0]["decl"])]
    outp = [f for f in files if f not in inp]
    ck.require(len(inp) == 1 and len(outp) == 1, "input/output files not recognised")
    indecl, outdecl = inp[0][0]["decl"], outp[0][0]["decl"]
    # all writes to the output in dominance order
    wr = [n for n in fn.calls() if n.get("ck") == "member" and is_ref_to(n.get("obj"), outdecl) and name_is(n.get("callee"), ("putChar", "write"))]
    ck.require(len(wr) >= 4, "fewer than 4 writes to the output file")
    sites = {n["id"]: g.site_of(n) for n in wr}
    import functools
    def cmpw(a, b):
        ab = g.can_reach(sites[a["id"]], sites[b["id"]])
        ba = g.can_reach(sites[b["id"]], sites[a["id"]])
        if ab and not ba:
            return -1
        if ba and not ab:
            return 1
        raise AnalysisBroken("writes to the output file are not totally ordered (loop or alternative branches)")
    wr.sort(key=functools.cmp_to_key(cmpw))
    # classify
    seq = []
    for n in wr:
        a = n.get("args", [])
        if name_is(n.get("callee"), "putChar"):
            v = const_int(a[0])
            seq.append(("const", [v & 0xFF] if v is not None else None, n))
        else:
            s0 = skip_copies(a[0])
            if s0.get("k") == "str" and len(a) == 2 and const_int(a[1]) is not None:
                b = s0.get("bytes") or [ord(c) for c in (s0.get("v") or "")]
                k = const_int(a[1])
                b = (b + [0] * k)[:k]
                seq.append(("const", b, n))
            elif s0.get("k") == "str" and len(a) == 1:
                b = s0.get("bytes") or [ord(c) for c in (s0.get("v") or "")]
                seq.append(("const", b, n))
            else:
                # a constant byte array (file-scope or static local) written in one call
                arr = None
                if s0.get("k") == "ref" and s0.get("decl"):
                    gv = F.globals.get(s0["decl"])
                    init = gv.get("init") if gv and gv.get("const") else None
                    if init is None:
                        _, lv = local_var(fn, s0["decl"])
                        init = lv.get("init") if lv and lv.get("const") else None
                    init = skip_copies(init) if isinstance(init, dict) else None
                    if isinstance(init, dict) and init.get("k") == "initlist":
                        vals = [const_int(e) for e in init.get("els", [])]
                        if vals and all(v is not None for v in vals):
                            arr = [v & 0xFF for v in vals]
                    elif isinstance(init, dict) and init.get("k") == "str":
                        arr = init.get("bytes") or [ord(c) for c in (init.get("v") or "")]
                k = const_int(a[1]) if len(a) > 1 else None
                if arr is not None and k is not None:
                    seq.append(("const", (arr + [0] * k)[:k], n))
                else:
                    seq.append(("data", None, n))
    hdr = []
    i = 0
    while i < len(seq) and seq[i][0] == "const":
        if seq[i][1] is None:
            ck.ob("C08-O1", sitestr(fn, seq[i][2]), None, "non-constant header byte")
            return
        hdr += seq[i][1]
        i += 1
    rest = seq[i:]
    ok = len(hdr) == 10 and hdr[:4] == [0x1f, 0x8b, 0x08, 0x00]
    if not hdr:
        ck.ob("C08-O1", sitestr(fn, wr[0]), None, "the first write to the .gz is not made of constants the analysis can read; header layout not decided")
        return
    ck.ob("C08-O1", sitestr(fn, wr[0]), ok, "header bytes %s" % " ".join("%02x" % b for b in hdr) if ok else "header is %s (expected 10 bytes starting 1f 8b 08 00)" % " ".join("%02x" % b for b in hdr),
          key="compressFile|header")
    uncond = all(g.must_pass({sites[s[2]["id"]]}, frm=sites[wr[0]["id"]]) for s in seq[:i])
    ck.ob("C08-O1", sitestr(fn, wr[0]), uncond, "the header is written unconditionally once the output is open", key="compressFile|header-conditional")
    if len(rest) != 3:
        ck.ob("C08-O2", sitestr(fn), False if len(rest) < 3 else None, "after the header there are %d data writes (payload, CRC, ISIZE expected)" % len(rest), key="compressFile|data-writes")
        return
    pay, w1, w2 = (r[2] for r in rest)
    # ---- O2 payload slice
    a = pay["args"]
    comp = None
    ptr = skip_copies(a[0])
    off = None
    if ptr.get("k") == "binop" and ptr.get("op") == "+":
        base, k = skip_copies(ptr.get("lhs")), const_int(ptr.get("rhs"))
        if is_call(base, ("QByteArray::constData", "QByteArray::data")) and skip_copies(base.get("obj")).get("k") == "ref":
            comp = skip_copies(base["obj"])["decl"]
            off = k
    elif is_call(ptr, ("QByteArray::constData", "QByteArray::data")):
        comp = skip_copies(ptr.get("obj")).get("decl")
        off = 0
    if comp is None:
        ck.ob("C08-O2", sitestr(fn, pay), None, "payload pointer %s not recognised" % describe(ptr))
        return
    csym = lambda n: "size" if is_call(n, ("QByteArray::size", "QByteArray::length")) and is_ref_to(skip_copies(n).get("obj"), comp) else None
    ln = linear(a[1], csym) if len(a) > 1 else None
    ck.ob("C08-O2", sitestr(fn, pay), off == 6, "payload starts at offset 6 of qCompress's result (4-byte length prefix + 2-byte zlib header)" if off == 6 else
          "payload starts at offset %s (must skip the 4-byte length prefix and the 2-byte zlib header = 6)" % off, key="compressFile|payload-offset")
    okl = ln is not None and ln.get("size") == 1 and ln.get("", 0) == -10 and set(ln) <= {"size", ""}
    ck.ob("C08-O2", sitestr(fn, pay), okl if ln is not None else None, "payload length = size - 6 - 4 (drops the Adler-32)" if okl else "payload length %s (expected size - 10)" % ln, key="compressFile|payload-length")
    _, cvar = local_var(fn, comp)
    csrc = skip_copies(cvar.get("init")) if cvar else None
    okc = is_call(csrc, "qCompress") and csrc.get("args")
    raw = deref_local(fn, csrc["args"][0]) if okc else None
    okr = okc and is_call(raw, ("QIODevice::readAll", "QFile::readAll")) and is_ref_to(skip_copies(raw).get("obj"), indecl)
    ck.ob("C08-O2", sitestr(fn, pay), okr, "compressed data = qCompress(input.readAll())" if okr else "compressed data = %s" % describe(csrc), key="compressFile|payload-source")
    # payload guard: written whenever the compressed buffer is longer than the framing
    ps = sites[pay["id"]]
    for sz, want in ((11, True), (12, True), (1000, True)):
        leaf = lambda n, sz=sz: sz if csym(n) else None
        live = ps in g.live(g.projector(numeric_atom(fn, leaf)))
        if live != want:
            ck.ob("C08-O2", sitestr(fn, pay), False, "payload is not written for a compressed buffer of %d bytes" % sz, key="compressFile|payload-guard")
            break
    else:
        ck.ob("C08-O2", sitestr(fn, pay), True, "payload written for every compressed buffer longer than its 10 framing bytes")
    # ---- O3 trailer
    def word_src(w):
        a = w["args"]
        p = skip_copies(a[0])
        while p.get("k") == "cast":
            p = skip_copies(p.get("e"))
        if not (p.get("k") == "unop" and p.get("op") == "&" and skip_copies(p.get("e")).get("k") == "ref"):
            return None, None, None
        d = skip_copies(p["e"])
        _, v = local_var(fn, d["decl"])
        n = const_int(a[1]) if len(a) > 1 else None
        return v, n, d
    if S._crc is None:
        predicted_crc(ck, S, fn, word_src(w1))
    crc_call = [n for n in fn.calls() if n.get("fn") == S.crc.id]
    for idx, (w, what) in enumerate(((w1, "CRC-32"), (w2, "ISIZE"))):
        v, nbytes, d = word_src(w)
        if v is None:
            ck.ob("C08-O3", sitestr(fn, w), None, "trailer word %d is not written from the address of a local" % (idx + 1))
            continue
        init = skip_copies(v.get("init"))
        le = is_call(init, "qToLittleEndian") and init.get("args")
        src = deref_local(fn, init["args"][0]) if le else deref_local(fn, init)
        while isinstance(src, dict) and src.get("k") == "cast":
            src = skip_copies(src.get("e"))
        if what == "CRC-32":
            oksrc = isinstance(src, dict) and src.get("k") == "call" and src.get("fn") == S.crc.id and is_ref_to(src["args"][0], indecl)
        else:
            oksrc = is_call(src, ("QFileDevice::size", "QFile::size", "QIODevice::size")) and is_ref_to(skip_copies(src).get("obj"), indecl)
        wrong_obj = what == "ISIZE" and is_call(src, ("QFileDevice::size", "QFile::size", "QIODevice::size", "QByteArray::size")) and not oksrc
        is_other = wrong_obj or (what == "CRC-32" and is_call(src, ("QFileDevice::size", "QFile::size", "QIODevice::size"))) or (what == "ISIZE" and isinstance(src, dict) and src.get("fn") == S.crc.id)
        ck.ob("C08-O3", sitestr(fn, w), True if oksrc else (False if is_other else None), "trailer word %d is the %s" % (idx + 1, what) if oksrc else "trailer word %d is %s (expected %s)" % (idx + 1, describe(src), what),
              key="compressFile|trailer-order")
        ck.ob("C08-O3", sitestr(fn, w), bool(le), "%s passes through qToLittleEndian" % what if le else "%s is written in host byte order" % what, key="compressFile|trailer-endian-%s" % what)
        w32 = v.get("type") in ("unsigned int", "quint32", "uint32_t", "const unsigned int") and nbytes == 4
        ck.ob("C08-O3", sitestr(fn, w), w32, "%s is a 32-bit word, 4 bytes written" % what if w32 else "%s has type %s, %s bytes written" % (what, v.get("type"), nbytes), key="compressFile|trailer-width-%s" % what)
    crc32(ck, S)
    # ---- O5 ordering
    seeks = [n for n in fn.calls(("QIODevice::seek", "QFileDevice::seek", "QFile::seek")) if is_ref_to(n.get("obj"), indecl) and const_int(n["args"][0]) == 0]
    reads = [n for n in fn.calls(("QIODevice::readAll", "QFile::readAll")) if is_ref_to(n.get("obj"), indecl)]
    if crc_call and reads:
        cs_ = g.site_of(crc_call[0])
        rs_ = g.site_of(reads[0])
        if g.dominated(rs_, {cs_}):
            ok = bool(seeks) and any(g.dominated(rs_, {g.site_of(s)}) and g.dominated(g.site_of(s), {cs_}) for s in seeks)
            ck.ob("C08-O5", sitestr(fn, reads[0]), ok, "the input is rewound between the CRC pass and readAll()" if ok else "readAll() after the CRC pass without seek(0): the payload is empty", key="compressFile|no-rewind")
        else:
            ck.ob("C08-O5", sitestr(fn, reads[0]), True, "the payload is read before the CRC pass (which rewinds itself)")
    closes = [n for n in fn.calls(("QFileDevice::close", "QFile::close", "QIODevice::close", "QSaveFile::commit")) if is_ref_to(n.get("obj"), outdecl)]
    rem = [n for n in fn.calls() if destructive_kind(n) == "remove"]
    ck.require(len(rem) == 1, "compressFile has %d remove calls" % len(rem))
    rms = g.site_of(rem[0])
    okc = bool(closes) and g.dominated(rms, set(g.sites_of_nodes(closes)))
    for c_ in closes:
        if name_is(c_.get("callee"), "QSaveFile::commit") and rms in g.live(g.projector(atom_eq(value_pred(fn, c_), False))):
            okc = False   # the archive only exists if commit() returned true
    ck.ob("C08-O5", sitestr(fn, rem[0]), okc, "the original is removed only after the compressed file was closed" if okc else "the original can be removed while the compressed file is still open/unflushed", key="compressFile|remove-before-close")
    # (the payload write is legitimately conditional; the trailer words must have been written and nothing may follow)
    allw = all(g.dominated(rms, {sites[w["id"]]}) for w in (w1, w2)) and all(not g.can_reach(rms, sites[w["id"]]) for w in wr)
    ck.ob("C08-O5", sitestr(fn, rem[0]), allw, "every write precedes the removal of the original" if allw else "the original is removed before the compressed file is complete", key="compressFile|remove-before-write")
    if closes:
        cl = g.site_of(closes[-1])
        okw = all(not g.can_reach(cl, sites[w["id"]]) for w in wr)
        ck.ob("C08-O5", sitestr(fn, closes[-1]), okw, "nothing is written after the output is closed", key="compressFile|write-after-close")
    # early returns: before any write/remove
    for r in returns(fn):
        rs_ = g.site_of(r)
        # an uncommitted QSaveFile is discarded when it goes out of scope: a return after writes leaves nothing behind
        transactional = outp[0][1].get("class") == "QSaveFile"
        pre = ([] if transactional else [w for w in wr if g.can_reach(sites[w["id"]], rs_)]) + ([rem[0]] if g.can_reach(rms, rs_) else [])
        if pre:
            ck.ob("C08-O5", sitestr(fn, r), False, "an early return leaves a partial compressed file after %s" % describe(pre[0])[:50], key="compressFile|partial-output")
    ck.ob("C08-O5", sitestr(fn), True, "%d early returns, all before the first write" % len(returns(fn)))
    opens = [n for n in fn.calls(("QFile::open", "QIODevice::open", "QFileDevice::open", "QSaveFile::open"))]
    for o in opens:
        if is_ref_to(o.get("obj"), outdecl):
            fl = open_flags(o)
            ck.ob("C08-O5", sitestr(fn, o), fl is not None and fl & 2 and not fl & 16, "the compressed file is opened WriteOnly, binary (no Text translation)" if (fl is not None and fl & 2 and not fl & 16) else
                  "compressed file opened with %s" % flagnames(fl), key="compressFile|output-mode")
        elif is_ref_to(o.get("obj"), indecl):
            fl = open_flags(o)
            ck.ob("C08-O5", sitestr(fn, o), fl is not None and fl & 1 and not fl & 16, "the rotated file is read in binary mode" if (fl is not None and fl & 1 and not fl & 16) else "input opened with %s" % flagnames(fl), key="compressFile|input-mode")
    ck.rule("C08-O8", "two sinks compress at the same time without sharing scratch state: no static variable written on the way from compressFile() (read buffer, running CRC, deflate output) "
                      "holds anything but constants - the CRC table is the one static, filled from literals")
    from rules.oth import shared_static_state
    shared_static_state(ck, F, "C08-O8", "its own logger's mutex", roots=[S.m["compressFile"]], min_roots=1, what="compression path")
    ck.rule("C08-O7", "a size of the active file read before a rotation is not used after it (the daily check may rotate before the size check runs)")
    from rules.rfs import stale_size
    stale_size(ck, S, "C08-O7")


def single_deflate_stream(ck, S, RID="C08-O2"):
    """a gzip member holds ONE deflate stream: the compressor is run once over the whole input.  qCompress() per block, with the pieces written one after the
    other, gives several complete streams (each ends with a final block) - every gzip reader stops after the first one, and the length / CRC in the trailer
    no longer describe what it has read"""
    fn = S.m["compressFile"]
    calls = [n for n in fn.calls() if strip_tmpl(n.get("callee") or "").split("::")[-1] in ("qCompress", "compress", "compress2", "deflate")]
    if not calls:
        ck.ob(RID, sitestr(fn), None, "compressFile(): no compressor call found", key="compressFile|one-stream")
        return
    looped = [n for n in calls if enclosing_loops(fn, n) and strip_tmpl(n.get("callee") or "").split("::")[-1] != "deflate"]
    ck.ob(RID, sitestr(fn, (looped or calls)[0]), not looped, "the compressor runs once over the whole input (one deflate stream per gzip member)" if not looped else
          "%s runs once per block inside a loop and the pieces are written one after the other: each piece is a complete deflate stream that ends with a final block, so a gzip reader "
          "stops after the first block (1 MiB of a larger log) and then fails the length / CRC check - the rest of the rotated records is unreadable" % describe(looped[0])[:30], key="compressFile|one-stream")


def crc32(ck, S, RID="C08-O4"):
    fn = S.crc
    ck.touch(fn)
    g = S.g(fn)
    M32 = 0xFFFFFFFF
    # crc local: init 0xFFFFFFFF
    crcv = None
    poly = None
    for n in fn.find(lambda n: n.get("k") == "decl"):
        for v in n.get("vars", []):
            ci = const_int(v.get("init")) if isinstance(v.get("init"), dict) else None
            if ci == 0xEDB88320:
                poly = v
            elif ci is not None and ci & M32 == M32 and v.get("type") in ("unsigned int", "quint32") and not v.get("const"):
                crcv = v
    semantic = crc_by_cases(ck, S, RID)
    lits = [n.get("v") for n in fn.find(lambda n: n.get("k") == "int")]
    okp = 0xEDB88320 in lits
    if semantic is None:
        ck.ob(RID, sitestr(fn), True if okp else None, "reflected polynomial 0xEDB88320" if okp else "CRC polynomial is not 0xEDB88320 (constants: %s)" % [hex(x) for x in lits if x > 255][:4], key="calculateCRC32|polynomial")
    if crcv is None:
        ck.ob(RID, sitestr(fn), False, "the CRC register is not initialised with 0xFFFFFFFF", key="calculateCRC32|init")
        return
    ck.ob(RID, sitestr(fn), True, "CRC register initialised with 0xFFFFFFFF")
    rs = returns(fn)
    e = skip_copies(rs[0].get("e")) if len(rs) == 1 else None
    okf = e is not None and ((e.get("k") == "binop" and e.get("op") == "^" and {True} == {is_ref_to(e.get("lhs"), crcv["decl"]) or is_ref_to(e.get("rhs"), crcv["decl"])} and (const_int(e.get("lhs")) == M32 or const_int(e.get("rhs")) == M32))
                             or (e.get("k") == "unop" and e.get("op") == "~" and is_ref_to(e.get("e"), crcv["decl"])))
    ck.ob(RID, sitestr(fn, rs[0]) if rs else sitestr(fn), okf, "final xor 0xFFFFFFFF" if okf else "result is %s" % describe(e), key="calculateCRC32|final-xor")
    # table
    import re as _re
    tab = None
    TABS = set()
    for n in fn.find(lambda n: n.get("k") == "decl"):
        for v in n.get("vars", []):
            t_ = v.get("type") or ""
            if "[256]" in t_ or _re.search(r"std::array<[^<>]*, 256>", t_):
                tab = v
                TABS.add(v["decl"])
    if tab is None and semantic:
        ck.ob(RID, sitestr(fn), True, "the table lives outside calculateCRC32(); its 256 entries and the update were decided by evaluation", key="calculateCRC32|table-size")
        return
    ck.ob(RID, sitestr(fn), True if tab is not None else None, "256-entry table" if tab else "no 256-entry table found in the CRC code; idiom not recognised", key="calculateCRC32|table-size")
    if tab is None:
        return

    def is_tab(x):
        """x designates the table: the array itself, a reference to it, or the value a spliced accessor returns"""
        x = skip_copies(x) if isinstance(x, dict) else None
        for _ in range(6):
            if not isinstance(x, dict):
                return False
            if x.get("k") == "ref" and x.get("decl") in TABS:
                _, var_ = local_var(fn, x["decl"])
                i_ = skip_copies(var_.get("init")) if var_ and isinstance(var_.get("init"), dict) else None
                if i_ is None or not (i_.get("k") in ("ref", "call")):
                    return True
                return True
            y = skip_copies(deref_local(fn, x))
            if y is x or y.get("id") == x.get("id"):
                return False
            x = y
        return False

    def elem(p_):
        """(base, index) of an element access: built-in subscript, operator[] or at()"""
        p_ = skip_copies(p_) if isinstance(p_, dict) else None
        if not isinstance(p_, dict):
            return None
        if p_.get("k") == "subscript":
            return p_.get("base"), p_.get("idx")
        if p_.get("k") == "call" and p_.get("op") == "[]" and len(p_.get("args", [])) == 2:
            return p_["args"][0], p_["args"][1]
        if p_.get("k") == "call" and p_.get("ck") == "member" and (p_.get("callee") or "").split("::")[-1] in ("at", "operator[]") and len(p_.get("args", [])) == 1:
            return p_.get("obj"), p_["args"][0]
        return None
    # update idiom
    upd = [n for n in fn.find(lambda n: n.get("k") == "binop" and n.get("op") == "=" and is_ref_to(n.get("lhs"), crcv["decl"]))]
    # `crc = helper(crc, ...)` only hands the register through a spliced helper; the real update is inside it
    upd = [n for n in upd if not (skip_copies(n.get("rhs")).get("k") == "call" and skip_copies(n.get("rhs")).get("inl_body") is not None)] or upd
    okupd = False
    why = "no update of the CRC register"
    if len(upd) == 1:
        r = skip_copies(upd[0].get("rhs"))
        if r.get("k") == "binop" and r.get("op") == "^":
            parts = [skip_copies(r.get("lhs")), skip_copies(r.get("rhs"))]
            sub = [p for p in parts if elem(p) is not None and is_tab(elem(p)[0])]
            shr = [p for p in parts if p.get("k") == "binop" and p.get("op") == ">>" and is_ref_to(p.get("lhs"), crcv["decl"]) and const_int(p.get("rhs")) == 8]
            if sub and shr:
                idx = skip_copies(elem(sub[0])[1])
                if idx.get("k") == "binop" and idx.get("op") == "&" and 0xFF in (const_int(idx.get("lhs")), const_int(idx.get("rhs"))):
                    x = skip_copies(idx.get("lhs")) if const_int(idx.get("rhs")) == 0xFF else skip_copies(idx.get("rhs"))
                    if x.get("k") == "binop" and x.get("op") == "^" and (is_ref_to(x.get("lhs"), crcv["decl"]) or is_ref_to(x.get("rhs"), crcv["decl"])):
                        byte = skip_copies(x.get("rhs")) if is_ref_to(x.get("lhs"), crcv["decl"]) else skip_copies(x.get("lhs"))
                        while byte.get("k") == "cast":
                            byte = skip_copies(byte.get("e"))
                        if elem(byte) is not None:
                            okupd = True
                            why = ""
                        else:
                            why = "the byte operand is %s" % describe(byte)
                    else:
                        why = "table index is not (crc ^ byte) & 0xFF"
                else:
                    why = "table index is not masked with 0xFF"
            else:
                why = "update is not table[...] ^ (crc >> 8)"
        else:
            why = "update is %s" % describe(r)
    if semantic is None:
        ck.ob(RID, sitestr(fn, upd[0]) if upd else sitestr(fn), okupd if (okupd or len(upd) == 1) else None, "update crc = table[(crc ^ byte) & 0xFF] ^ (crc >> 8)" if okupd else "CRC update idiom not standard: %s" % why, key="calculateCRC32|update")
    # the update covers every byte read: inner loop from 0 to bytesRead, outer loop until atEnd
    if upd:
        loops = enclosing_loops(fn, upd[0])
        okl = len(loops) == 2
        det = ""
        if okl:
            inner, outer = loops[0], loops[1]
            ci = skip_copies(inner.get("cond"))
            start = inner.get("init", {}).get("vars", [{}])[0].get("init") if isinstance(inner.get("init"), dict) else None
            rd = [n for n in fn.calls(("QIODevice::read", "QFile::read"))]
            okl = ci.get("k") == "binop" and ci.get("op") == "<" and const_int(start) == 0 and len(rd) == 1
            if okl:
                bound = deref_local(fn, ci.get("rhs"))
                okl = bound.get("id") == rd[0]["id"] or is_call(bound, ("QIODevice::read", "QFile::read"))
                if not okl and skip_copies(bound).get("k") == "ref":
                    # `while ((n = read(...)) > 0) for (i = 0; i < n; ...)`: the bound is assigned from read() in the outer loop's own condition
                    bd_ = skip_copies(bound).get("decl")
                    okl = any(x.get("k") == "binop" and x.get("op") == "=" and is_ref_to(x.get("lhs"), bd_) and is_call(skip_copies(x.get("rhs")), ("QIODevice::read", "QFile::read"))
                              for x in walk(outer.get("cond") or {}))
                det = "" if okl else "inner bound is %s" % describe(bound)
            co = skip_copies(outer.get("cond"))
            # the outer loop ends at end of file: `while (!atEnd())`, or `while ((n = read(...)) > 0)` (read() answers 0 / -1 there)
            until_eof = any(is_call(x, ("atEnd",)) for x in walk(co)) or \
                (co.get("k") == "binop" and co.get("op") in (">", "!=") and const_int(co.get("rhs")) == 0 and any(is_call(x, ("QIODevice::read", "QFile::read")) for x in walk(co.get("lhs") or {})))
            okl = okl and until_eof
        ck.ob(RID, sitestr(fn, upd[0]), okl if (okl or len(loops) == 2) else None, "every byte returned by read() is folded in, until atEnd()" if okl else "the CRC loops do not cover every byte read %s" % det, key="calculateCRC32|coverage")
    # table generation: 256 x 8 steps
    gen = [n for n in fn.find(lambda n: n.get("k") == "binop" and n.get("op") == "=" and elem(n.get("lhs")) is not None and is_tab(elem(n.get("lhs"))[0]))]
    okg = False
    n8 = n256 = step = False
    if len(gen) == 1:
        outer = enclosing_loops(fn, gen[0], local=True)
        if len(outer) == 1 and outer[0].get("k") == "for":
            oc = skip_copies(outer[0].get("cond"))
            n256 = oc.get("k") == "binop" and oc.get("op") == "<" and const_int(oc.get("rhs")) == 256
            inner = [l for l in find_loops(fn) if any(a.get("id") == outer[0]["id"] for a in fn.ancestors(l))]
            n8 = len(inner) == 1 and skip_copies(inner[0].get("cond")).get("op") == "<" and const_int(skip_copies(inner[0].get("cond")).get("rhs")) == 8
            step = False
            if n8:
                xs = [n for n in walk(inner[0].get("body")) if n.get("k") == "binop" and n.get("op") in ("^", "^=") and any(const_int(x) == 0xEDB88320 or const_int(deref_local(fn, x)) == 0xEDB88320 for x in (n.get("lhs"), n.get("rhs")))]
                sh = [n for n in walk(inner[0].get("body")) if n.get("k") == "binop" and n.get("op") in (">>", ">>=") and const_int(n.get("rhs")) == 1]
                tst = [n for n in walk(inner[0]) if n.get("k") == "binop" and n.get("op") == "&" and const_int(n.get("rhs")) == 1]
                step = bool(xs) and len(sh) >= 2 and bool(tst)
            okg = bool(n256 and n8 and step)
    # a definite contradiction is a 256/8 loop nest whose step is not the reflected shift/xor; anything else is "not recognised"
    definite = len(gen) == 1 and bool(n8) and bool(n256) and not step
    if semantic is None:
        ck.ob(RID, sitestr(fn), True if okg else False if definite else None, "table[i] = 8 x (v & 1 ? (v >> 1) ^ poly : v >> 1) for i in 0..255" if okg else
              "table generation idiom not recognised as the standard reflected CRC-32 table", key="calculateCRC32|table-generation")
    seeks = [n for n in fn.calls(("QIODevice::seek", "QFileDevice::seek", "QFile::seek")) if const_int(n["args"][0]) == 0]
    rd = [n for n in fn.calls(("QIODevice::read", "QFile::read"))]
    oks = bool(seeks) and bool(rd) and g.dominated(g.site_of(rd[0]), {g.site_of(seeks[0])})
    ck.ob(RID, sitestr(fn), oks, "the CRC pass starts at offset 0" if oks else "the CRC pass does not rewind the file first", key="calculateCRC32|rewind")


def _std_crc_table():
    t = []
    for i in range(256):
        v = i
        for _ in range(8):
            v = (v >> 1) ^ 0xEDB88320 if v & 1 else v >> 1
        t.append(v)
    return t


def crc_by_cases(ck, S, RID):
    """decides the table and the per-byte update of the CRC code by evaluation (engine/conc.py), whatever their form:
      (1) the 256 table entries are computed by running the generation loop nest and compared with the CRC-32 table;
      (2) the loop body that folds one byte in is run for all 256 byte values (as the element type presents them: a plain char is
          signed here) x the 33 registers {0, 1<<k}.  The update may only use XOR, shifts by constants, AND/OR with constants and look-ups
          in the (GF(2)-linear) table, so it is an affine map of the register for each byte: agreeing with
          table[(crc ^ byte) & 0xFF] ^ (crc >> 8) on a basis is agreeing everywhere.
    Returns True/False when decided (obligations emitted), None when the code is outside this fragment (the idiom rules then apply)."""
    from engine.conc import Conc, Unknown, Table
    import re as _re
    F = ck.facts
    fn = S.crc
    units = [fn] + [l for l in F.lambdas_of(fn) if l.body is not None]
    # a table kept outside the function (namespace-scope constexpr object, a struct filled by its constexpr constructor): the functions of
    # the same source file are candidates for the generation loop
    units += [f_ for f_ in F.fns.values() if f_.body is not None and f_.file == fn.file and f_.id != fn.id and f_ not in units and
              any(x.get("k") in ("for", "while") for x in f_.all_nodes())]

    def is_tab_type(t_):
        return "[256]" in (t_ or "") or bool(_re.search(r"std::array<[^<>]*, 256>", t_ or ""))
    tabs = {}
    for u in units:
        for n in u.find(lambda n: n.get("k") == "decl"):
            for v in n.get("vars", []):
                if is_tab_type(v.get("type")):
                    tabs[v["decl"]] = (u, v)
    for gv in F.globals.values():
        if is_tab_type(gv.get("type")) and gv.get("file") == fn.file:
            tabs[gv["decl"]] = (None, gv)
    for rec in F.records.values():
        for fld in rec.get("fields", []):
            if is_tab_type(fld.get("type")) and (rec.get("file") in (None, fn.file) or True):
                nm_ = fld.get("name") or ""
                tabs["field:" + (nm_ if "::" in nm_ else rec["name"] + "::" + nm_)] = (None, fld)
    if not tabs:
        return None

    def tab_key(b):
        """identity of a 256-entry array designated by expression b"""
        b = skip_copies(b) if isinstance(b, dict) else None
        if not isinstance(b, dict):
            return None
        if b.get("k") == "ref" and b.get("decl") in tabs:
            return b["decl"]
        if b.get("k") == "member" and ("field:" + (b.get("name") or "")) in tabs:
            return "field:" + b["name"]
        return None

    def table_store(n):
        """(array decl, index node) if n is an assignment into a 256-entry array"""
        if n.get("k") == "binop" and n.get("op") == "=":
            l = skip_copies(n.get("lhs"))
        elif n.get("k") == "call" and n.get("ck") == "operator" and n.get("op") == "=" and n.get("args"):
            l = skip_copies(n["args"][0])
        else:
            return None
        if l.get("k") == "subscript":
            b, i = skip_copies(l.get("base")), l.get("idx")
        elif l.get("k") == "call" and (l.get("op") == "[]" or (l.get("callee") or "").endswith("operator[]") or (l.get("callee") or "").endswith("::at")):
            b = skip_copies(l.get("obj") if l.get("ck") == "member" else l["args"][0])
            i = (l.get("args") or [None])[-1]
        else:
            return None
        if tab_key(b) is not None:
            return tab_key(b), i
        return None
    gen = None
    for u in units:
        for lp in find_loops(u):
            if enclosing_loops(u, lp):
                continue
            if any(table_store(x) for x in walk(lp)):
                gen = (u, lp)
    if gen is None:
        return None
    gu, gl = gen
    got = {}

    def hook(lhs, v, env):
        l = skip_copies(lhs)
        b = i = None
        if l.get("k") == "subscript":
            b, i = skip_copies(l.get("base")), l.get("idx")
        elif l.get("k") == "call":
            b = skip_copies(l.get("obj") if l.get("ck") == "member" else (l.get("args") or [{}])[0])
            i = (l.get("args") or [None])[-1]
        if tab_key(b) is not None and isinstance(i, dict):
            got.setdefault(tab_key(b), {})[cx.eval(i, env)] = v
            return True
        return False
    cx = Conc(F, store_hook=hook, max_steps=400000)
    try:
        cx.exec(gl, {"__fn__": gu})
    except Unknown as e:
        ck.notes.append("CRC table could not be tabulated: %s" % e)
        return None
    full = [d for d, m in got.items() if sorted(m) == list(range(256))]
    if len(full) != 1:
        return None
    tdecl = full[0]
    timpl = [got[tdecl][i] & 0xFFFFFFFF for i in range(256)]
    std = _std_crc_table()
    diff = [i for i in range(256) if timpl[i] != std[i]]
    ck.ob(RID, sitestr(gu, gl), not diff, "the 256 table entries, computed from the source of the generation loop, are the CRC-32 table (reflected polynomial 0xEDB88320)" if not diff else
          "the generated table differs from the CRC-32 table in %d entries (first: table[%d] = %#x, expected %#x)" % (len(diff), diff[0], timpl[diff[0]], std[diff[0]]), key="calculateCRC32|table")
    if diff:
        return False
    # a table held in a namespace-scope object must be ready before any code can run: constant initialisation (constexpr constructor / constinit).
    # A dynamically initialised object is zero until its translation unit is initialised - a rotation with compression that happens earlier
    # (logging configured by another global object's constructor; the objects of a static library are initialised after the application's)
    # computes the CRC over an all-zero table
    if str(tdecl).startswith("field:"):
        rec_ = str(tdecl)[6:].rsplit("::", 1)[0]
        holders = [gv for gv in F.globals.values() if not gv.get("staticlocal") and gv.get("file") == fn.file and
                   (gv.get("type") or "").replace("const ", "").strip().split("::")[-1] == rec_.split("::")[-1]]
    else:
        holders = [gv for gv in F.globals.values() if gv.get("decl") == tdecl and not gv.get("staticlocal")]
    for gv in holders:
        if gv.get("constinit") is False:
            ck.ob(RID, "%s:%s (%s)" % ((gv.get("file") or "").split("/src/")[-1], gv.get("line"), gv.get("name")), False,
                  "%s holds the CRC table and is initialised dynamically (its constructor is not constexpr): until the translation unit is initialised the table is all zero, so a file compressed before "
                  "that - a rotation triggered from another global object's constructor - gets the checksum 0xFFFFFFFF in its trailer and every gzip reader rejects it, after the original was removed" % gv.get("name"),
                  key="calculateCRC32|table-init-order")
            return False
        elif gv.get("constinit"):
            ck.ob(RID, "%s:%s (%s)" % ((gv.get("file") or "").split("/src/")[-1], gv.get("line"), gv.get("name")), True, "%s holds the CRC table and is constant-initialised" % gv.get("name"), key="calculateCRC32|table-init-order")
    # the table seen by the update code: the same object, or a reference / copy of what the generator returned
    tab_decls = set(tabs)
    # (2) the update
    rs = returns(fn)
    crcd = None
    for r in rs:
        for x in walk(r.get("e") or {}):
            if x.get("k") == "ref" and x.get("dk") == "local" and (x.get("type") or "").replace("const ", "").strip() in ("unsigned int", "quint32", "uint", "uint32_t", "unsigned long"):
                crcd = x["decl"]
    if crcd is None:
        return None
    inner = [lp for lp in find_loops(fn) if any(x.get("k") in ("binop", "call") and is_ref_to(skip_copies((x.get("lhs") or (x.get("args") or [{}])[0]) or {}), crcd) and (x.get("op") or "").endswith("=") and x.get("op") not in ("==", "!=", "<=", ">=")
                                                 for x in walk(lp.get("body") or {})) and not any(l2["id"] != lp["id"] and any(y.get("id") == l2["id"] for y in walk(lp.get("body") or {})) for l2 in find_loops(fn))]
    if len(inner) != 1:
        return None
    body = inner[0].get("body")
    # affine fragment only
    for x in walk(body):
        if x.get("k") == "binop":
            op = x.get("op")
            base = op[:-1] if op.endswith("=") and op not in ("==", "!=", "<=", ">=") else op
            if base in ("^", "=", ""):
                continue
            if base in (">>", "<<"):
                if const_int(x.get("rhs")) is None:
                    return None
                continue
            if base in ("&", "|"):
                if const_int(x.get("rhs")) is None and const_int(x.get("lhs")) is None:
                    return None
                continue
            return None
        if x.get("k") == "unop" and x.get("op") not in ("~",):
            return None
        if x.get("k") in ("if", "cond", "while", "for", "do", "switch"):
            return None
    CH = {"char": True, "signed char": True, "unsigned char": False, "uchar": False, "quint8": False, "qint8": True, "uint8_t": False, "int8_t": True}

    def byte_elem(n):
        """does n read one element of the input buffer? returns the signedness of the element type, else None"""
        n = skip_copies(n)
        t_ = (n.get("type") or "").replace("const ", "").strip()
        if t_ not in CH:
            return None
        if n.get("k") == "subscript":
            b = skip_copies(n.get("base"))
            if not (b.get("k") == "ref" and b.get("decl") in tab_decls) and not is_tab_type(b.get("type")):
                return CH[t_]
        if n.get("k") == "call" and ((n.get("callee") or "").split("::")[-1] in ("at", "operator[]") or n.get("op") == "[]"):
            return CH[t_]
        if n.get("k") == "unop" and n.get("op") == "*":
            return CH[t_]
        return None
    bad, n_eval = [], 0
    holder = [None]
    try:
        for b in range(256):
            def leaf(n, env, b=b):
                # a look-up in the table, however the table is designated (local reference, member of a namespace-scope object)
                if n.get("k") == "subscript" and is_tab_type(skip_copies(n.get("base") or {}).get("type")) and not (skip_copies(n["base"]).get("k") == "ref" and skip_copies(n["base"]).get("decl") in env):
                    i_ = holder[0].eval(n.get("idx"), env)
                    if isinstance(i_, int) and 0 <= i_ < 256:
                        return timpl[i_]
                    raise Unknown("table index %r" % (i_,))
                sg = byte_elem(n) if n.get("k") in ("subscript", "call", "unop") else None
                if sg is None:
                    return None
                return b - 256 if (sg and b >= 128) else b
            for reg in [0] + [1 << k for k in range(32)]:
                env = {"__fn__": fn, crcd: reg}
                for d_ in tab_decls:
                    if not str(d_).startswith("field:"):
                        env[d_] = Table(items=list(timpl))
                c2 = Conc(F, leaf=leaf, max_steps=4000)
                holder[0] = c2
                c2.exec(body, env)
                n_eval += 1
                out = env.get(crcd)
                want = std[(reg ^ b) & 0xFF] ^ (reg >> 8)
                if not isinstance(out, int) or (out & 0xFFFFFFFF) != want:
                    if len(bad) < 4:
                        bad.append("byte %#04x, register %#x -> %s (expected %#x)" % (b, reg, hex(out & 0xFFFFFFFF) if isinstance(out, int) else out, want))
                    if len(bad) >= 4:
                        raise StopIteration
    except StopIteration:
        pass
    except Unknown as e:
        ck.notes.append("CRC update could not be evaluated: %s" % e)
        return None
    ck.ob(RID, sitestr(fn, inner[0]), not bad, "the per-byte update, run for all 256 byte values x 33 basis registers (%d evaluations; the update is affine in the register), equals table[(crc ^ byte) & 0xFF] ^ (crc >> 8)" % n_eval if not bad else
          "the per-byte update is not the CRC-32 step: %s%s" % ("; ".join(bad), " — bytes >= 0x80 are sign-extended (plain char) before they are folded in" if all("byte 0x8" in x or "byte 0x9" in x or "byte 0xa" in x or "byte 0xb" in x or "byte 0xc" in x or "byte 0xd" in x or "byte 0xe" in x or "byte 0xf" in x for x in bad) else ""),
          key="calculateCRC32|update")
    return not bad



def predicted_crc(ck, S, fn, ws):
    """the trailer's CRC-32 is not computed from the file that is compressed but handed in (a parameter, a member kept up to date while writing): it then
    describes the bytes the sink BELIEVES it wrote. Definite when the bytes fed to that checksum are encoded differently from the bytes written."""
    F = ck.facts
    v, _, d = ws
    if v is None:
        return
    init = skip_copies(v.get("init"))
    src = deref_local(fn, init["args"][0]) if (is_call(init, "qToLittleEndian") and init.get("args")) else deref_local(fn, init)
    src = skip_copies(src) if isinstance(src, dict) else None
    if not (isinstance(src, dict) and src.get("k") == "ref" and src.get("dk") == "param"):
        return
    # encoders of the record at the write site and wherever a checksum-like member is updated from the record
    def encoders(f):
        return {strip_tmpl(x.get("callee") or "").split("::")[-1] for x in f.all_nodes() if x.get("k") == "call" and strip_tmpl(x.get("callee") or "").split("::")[-1] in
                ("toUtf8", "toLocal8Bit", "toLatin1") and is_call(skip_copies(x.get("obj") or {}), "QtLogger::LogMessage::formattedMessage")}
    written = encoders(S.io_send)
    fed = set()
    site = None
    for f in S.flat_units():
        for n in f.all_nodes():
            if n.get("k") == "binop" and n.get("op") == "=" and skip_copies(n.get("lhs") or {}).get("k") == "member" and "crc" in (skip_copies(n["lhs"]).get("name") or "").lower():
                e_ = encoders(f)
                if e_:
                    fed |= e_
                    site = site or (f, n)
    if fed and written and fed != written:
        ck.ob("C08-O3", sitestr(site[0], site[1]), False, "the CRC-32 of the trailer is not computed from the file that is compressed but kept up to date while writing, from %s() of the record - the file receives %s(): "
              "with a locale codec that is not UTF-8 and a non-ASCII character the checksum describes other bytes than the archive holds" % ("/".join(sorted(fed)), "/".join(sorted(written))), key="compressFile|predicted-crc")
