"""C06 — retention bounds the count and deletes only the oldest (DESIGN.md section 3, C06)."""
import itertools
import re

from engine.util import *
from rules.rfs import *

LEVEL = "other"
MIN_OBLIGATIONS = 14
THOROUGH_CONFIGS = ("headeronly",)
TECHNIQUE = "numeric CFG projection of the count guards (N<=0, N==1), linear normal form of the deletion loop's condition, exhaustive evaluation of the extracted comparator over a small (date,index) domain, name-pattern table rules (anchors, escaped pieces, digit classes); tie-breaker-tolerant comparator evaluation, one-removal-per-rotation rule, shared max+1 index rule; who-may-delete allow-list (retention's oldest file, compressFile's just-compressed original, the fresh rename target); constructor-derived members tabulated by cases for the count guards; locale-independent name digits; one time base for the sink's dates; exact end anchor (\\z) of the retention pattern; file-count limit followed from the constructors into the member by cases; unstable later pass of a multi-pass ordering; the INI front-end hands max_file_count to the sink as read (argument identity, shared with C19)"
LEVEL_TEXT = ("Decides for all histories the structural necessary conditions of the retention policy: nothing is deleted for N<=0, no rotation for N==1, the deletion loop continues while "
              "|rotated| >= N and removes exactly the head it inspected, rotate() always runs the clean-up after the rename, candidates are ordered by a key that identifies rotation order "
              "(date and numeric index captured from the name; a modification-time-only key is a violation), the victim is the oldest end of that order, and only files matching the "
              "anchored, escaped rotated-name pattern are candidates. Which files survive a concrete history is run-time.")
LEVEL_NOTE = "trusts QDir::entryList / QRegularExpression / QFile::remove; assumes a forward-moving calendar (names carry increasing dates)"
DESIGN_REF = "DESIGN.md section 3, C06"
EXPLANATION = ("Rules over removeOldFiles(), findRotatedFiles() and rotate(). Guards are decided by projecting the CFG on concrete values of m_maxFileCount and of the list size taken from "
               "a grid that contains every boundary (the conditions are unit-coefficient linear comparisons, which is checked). The comparator lambda is evaluated symbolically for all "
               "16 ordered pairs over dates {1,2} x indices {9,10} and must be the strict lexicographic order on (date, index).")
TRUSTED = ["yyyy-MM-dd strings of fixed width order lexicographically as the dates do", "std::sort with a strict weak order; QStringList::first()/removeFirst()"]
ASSUMPTIONS = ["the calendar does not run backwards between rotations", "index strings fit an int"]
NOT_DECIDED = ["the surviving file set for a concrete history", "files changed by other processes"]


def run(ck):
    S = Sink(ck)
    F = ck.facts
    ck.rule("C06-O1", "N <= 0: removeOldFiles() deletes nothing")
    # who may delete: retention (the oldest rotated file) and compressFile (the original it has just compressed); nobody else, whatever N is
    from rules.c05 import allowed_destructive
    for f_, n_, k_ in S.destructive_sites():
        if k_ != "remove":
            continue
        ok_, why_ = allowed_destructive(S, f_, n_, k_)
        ck.ob("C06-O1", sitestr(f_, n_), ok_, "%s: %s" % (describe(n_)[:50], why_) if ok_ else
              "%s deletes a file outside retention (%s): with N <= 0 nothing may ever be deleted, with N >= 2 only the oldest rotated files" % (strip_tmpl(f_.name).split("::")[-1], why_),
              key="remove|%s|%s" % (strip_tmpl(f_.name).split("::")[-1], "ok" if ok_ else why_))
    ck.rule("C06-O2", "N == 1: rotate() neither closes nor renames the active file")
    ck.rule("C06-O3", "the deletion loop continues while |rotated| >= N, removes the inspected end of the list once per iteration, and rotate() runs it after the rename on every path")
    ck.rule("C06-O4", "candidates are sorted by the strict lexicographic order on (date, numeric index) captured from the rotated name, and the victim is the oldest end")
    ck.rule("C06-O5", "the ordering key must identify rotation order: a modification-time-only key ties within a timestamp tick")
    ck.rule("C06-O6", "only regular files matching the anchored pattern built from escaped base name / suffix and digit classes are candidates")
    ro = S.m["removeOldFiles"]
    g = S.g(ro)
    NF = RP + "::m_maxFileCount"
    from rules.rfs import retention_by_cases
    v_, why_ = retention_by_cases(ck, S, "C06-O3", failures=True)      # also with one removal failing: the files removed are still only the oldest
    if v_ is not None:
        ck.ob("C06-O3", sitestr(ro), v_, why_ if v_ else why_ + ": retention deletes a file that is not among the oldest (or not the right number of them), so a newer log is lost while an older one is kept",
              key="removeOldFiles|by-cases")
    removes = [n for n in ro.calls() if destructive_kind(n) == "remove"]
    ck.require(len(removes) == 1, "removeOldFiles has %d remove calls" % len(removes))
    rs = g.site_of(removes[0])
    lst = skip_copies(removes[0]["args"][0])
    victim = deref_local(ro, lst)
    counted = None
    if is_call(victim, ("at", "operator[]", "value")) or (isinstance(victim, dict) and victim.get("k") == "call" and victim.get("op") == "[]"):
        counted = counted_prefix(ro, removes[0], victim)
        ck.require(counted is not None, "victim expression %s is indexed, but not by a 0..k counting loop over an unmodified list" % describe(victim))
    else:
        ck.require(is_call(victim, ("first", "constFirst", "front", "last", "constLast", "back", "takeFirst", "takeLast")), "victim expression %s not recognised" % describe(victim))
    listref = skip_copies(counted["list"]) if counted else skip_copies(skip_copies(victim).get("obj"))
    ck.require(listref.get("k") == "ref", "victim list is not a local")
    ldecl = listref["decl"]

    def leaf_for(N, sz):
        def extra(n):
            if is_call(n, ("size", "count", "length")) and is_ref_to(skip_copies(n).get("obj"), ldecl):
                return sz
            if is_call(n, ("isEmpty",)) and is_ref_to(skip_copies(n).get("obj"), ldecl):
                return int(sz == 0)
            return None
        # the limit itself, or whatever members the constructor derives from it (an enum class, N - 1, ...): evaluated by cases
        return S.count_leaf(N, extra)

    def guards_decided(fn_, gg_, leaf_):
        """every two-way branch of fn_ whose condition reads a member gets a value under leaf_ (otherwise reachability is not a verdict)"""
        at = numeric_atom(fn_, leaf_)
        for n_ in fn_.all_nodes():
            if n_.get("k") in ("if", "while", "for", "cond") and isinstance(n_.get("cond"), dict):
                c_ = n_["cond"]
                if any(x.get("k") == "member" and x.get("dk") == "field" and "m_max" in (x.get("name") or "") or (x.get("k") == "member" and "etention" in (x.get("name") or "")) for x in walk(c_)):
                    from engine.cfg import eval_cond
                    if eval_cond(c_, at, fn_) is None:
                        return False
        return True

    # ---- O1
    bad = []
    undecided_guard = False
    for N in (-3, -1, 0):
        for sz in (0, 1, 5):
            lf_ = leaf_for(N, sz)
            live = g.live(g.projector(numeric_atom(ro, lf_)))
            if rs in live:
                if guards_decided(ro, g, lf_):
                    bad.append((N, sz))
                else:
                    undecided_guard = True
    ck.ob("C06-O1", sitestr(ro, removes[0]), (not bad) if (bad or not undecided_guard) else None, "for N in {-3,-1,0} the remove is unreachable whatever the number of rotated files" if not bad and not undecided_guard else
          "the guards of removeOldFiles() read members whose value for N <= 0 could not be tabulated from the constructor" if not bad else
          "with (N, |rotated|) = %s a file is deleted although the limit is <= 0" % bad[:3], key="removeOldFiles|deletes-when-unlimited")
    # ---- O3: loop condition
    loops = [l for l in find_loops(ro) if any(a.get("id") == l["id"] for a in ro.ancestors(removes[0]))]
    if not loops:
        # one removal per call: the count only ever goes down by one per rotation
        callers = [(f_, c_) for f_ in S.m.values() for c_ in S.calls_to(f_, "removeOldFiles") if f_.id != ro.id]
        in_loop = [1 for f_, c_ in callers if enclosing_loops(f_, c_)]
        ck.ob("C06-O3", sitestr(ro, removes[0]), False if not in_loop else None,
              "retention removes at most one file per rotation: a directory that holds more than N files (limit lowered between runs, 'keep everything' replaced by a limit, "
              "a failed removal earlier) is never brought down to N - every rotation adds one and removes one", key="removeOldFiles|count-bound")
        return
    ck.require(len(loops) == 1 and loops[0].get("k") in ("while", "for"), "deletion loop not recognised")
    loop = loops[0]
    cond = loop.get("cond")

    def sym(n):
        if is_this_field(n, NF):
            return "N"
        if is_call(n, ("size", "count", "length")) and is_ref_to(skip_copies(n).get("obj"), ldecl):
            return "size"
        return None
    cf = comparison_form(cond, sym)
    if counted:
        # `for (i = 0; i < E; ++i) remove(list.at(i))` with an unmodified list: deletes the first E candidates. The first
        # evaluation of the condition decides whether anything is deleted: 0 < E  <=>  E - 1 >= 0
        lf = linear(counted["bound"], sym, ro)
        cf = None
        if lf is not None:
            f_ = dict(lf)
            f_[""] = f_.get("", 0) - 1
            cf = ({k_: v_ for k_, v_ in f_.items() if v_ != 0 or k_ == ""}, ">=")
        cond = counted["cond"]
    if cf is None:
        ck.ob("C06-O3", sitestr(ro, cond), None, "loop condition %s is not a linear comparison of the list size and the limit" % describe(cond))
    else:
        f, op = cf
        okshape = op == ">=" and f.get("size") == 1 and f.get("N") == -1 and set(f) <= {"size", "N", ""}
        if not okshape:
            ck.ob("C06-O3", sitestr(ro, cond), None, "loop condition normal form %s %s 0 not of the shape size - N + k >= 0" % (f, op))
        else:
            k = f.get("", 0)
            ck.ob("C06-O3", sitestr(ro, cond), k >= 0, "deletion continues while |rotated| - N + %d >= 0, i.e. at most N-1 rotated files (+ the active one) remain" % k if k >= 0 else
                  "deletion stops while |rotated| - N = %d: up to %d rotated files + the active one survive (more than N)" % (-k - 1, -k - 1 + 0) , key="removeOldFiles|count-bound")
    # per iteration: remove the inspected end exactly once
    condsite = g.site_of(cond)
    first_end = is_call(victim, ("first", "constFirst", "front", "takeFirst"))
    pops = [n for n in ro.calls() if n.get("ck") == "member" and is_ref_to(n.get("obj"), ldecl) and name_is(n.get("callee"), ("removeFirst", "pop_front", "takeFirst", "removeLast", "pop_back", "takeLast", "removeAt", "erase"))]
    if counted:
        first_end = True
        ck.ob("C06-O3", sitestr(ro, loop), not pops, "the loop deletes the candidates at index 0, 1, ... of the unmodified list: exactly the first (oldest) `bound` files, each once" if not pops else
              "the counting loop also pops the list it indexes", key="removeOldFiles|iteration")
    elif len(pops) != 1:
        ck.ob("C06-O3", sitestr(ro, loop), False if not pops else None, "the loop pops the list %d times per iteration" % len(pops), key="removeOldFiles|pop-count")
    else:
        p = pops[0]
        same_end = name_is(p.get("callee"), ("removeFirst", "pop_front", "takeFirst")) == first_end and not name_is(p.get("callee"), ("removeAt", "erase"))
        ck.ob("C06-O3", sitestr(ro, p), same_end, "the popped element is the one that was deleted (%s / %s)" % (skip_copies(victim).get("callee", "").split("::")[-1], p.get("callee", "").split("::")[-1]) if same_end else
              "the loop deletes %s but pops with %s" % (describe(victim), describe(p)), key="removeOldFiles|pop-other-end")
        ps = g.site_of(p)
        keep_in = lambda e: not (e.src == condsite and e.idx == 1)
        r = g.reach([condsite], blocked={ps}, keep=keep_in, include_start=False)
        okp = condsite not in r
        r2 = g.reach([condsite], blocked={rs}, keep=keep_in, include_start=False)
        okr = condsite not in r2
        ck.ob("C06-O3", sitestr(ro, p), okp and okr, "every iteration deletes and pops exactly one element" if (okp and okr) else "an iteration can skip the %s" % ("pop (endless loop)" if not okp else "deletion"),
              key="removeOldFiles|iteration")
    src = container_origin(ro, listref)
    okl = isinstance(skip_copies(src), dict) and skip_copies(src).get("k") == "call" and skip_copies(src).get("fn") == S.m["findRotatedFiles"].id
    ck.ob("C06-O3", sitestr(ro), okl, "the candidates are findRotatedFiles()" if okl else "the candidates come from %s" % describe(src), key="removeOldFiles|candidates")
    # rotate(): cleanup after the rename on every path after close
    rt = S.m["rotate"]
    gr = S.g(rt)
    closes = [n for n in rt.calls(("QFileDevice::close", "QFile::close", "QIODevice::close")) if S.is_active_file(n.get("obj"))]
    renames = [n for n in rt.calls() if destructive_kind(n) == "rename"]
    cleanup = [n for n in S.calls_to(rt, "removeOldFiles")]
    ck.require(closes and renames, "rotate(): close/rename not found")
    if not cleanup:
        ck.ob("C06-O3", sitestr(rt), False, "rotate() never runs the clean-up: the number of files grows without bound", key="rotate|no-cleanup")
    else:
        cs = set(gr.sites_of_nodes(cleanup))
        # only a successful rename adds a rotated file; a failed one leaves the count as it was
        ok = all(gr.postdominated(gr.site_of(r), cs, keep=gr.projector(atom_eq(value_pred(rt, r), True))) for r in renames)
        ck.ob("C06-O3", sitestr(rt, cleanup[0]), ok, "after every successful rename the clean-up runs before rotate() returns" if ok else "a path through rotate() skips the clean-up after a successful rename",
              key="rotate|cleanup-skipped")
    # ---- O2
    bad = []
    for N in (1,):
        live = gr.live(gr.projector(numeric_atom(rt, S.count_leaf(N))))
        for c in closes + renames:
            if gr.site_of(c) in live:
                bad.append(describe(c)[:40])
    ck.ob("C06-O2", sitestr(rt), not bad, "with N == 1 rotate() returns before close/rename" if not bad else "with N == 1 rotate() still executes %s" % bad, key="rotate|rotates-with-one")
    bad = []
    for N in (-1, 0, 2, 5):
        live = gr.live(gr.projector(numeric_atom(rt, S.count_leaf(N))))
        if not all(gr.site_of(c) in live for c in closes + renames):
            bad.append(N)
    ck.ob("C06-O2", sitestr(rt), not bad, "with N in {-1,0,2,5} rotation is performed" if not bad else "rotation is disabled for N in %s" % bad, key="rotate|disabled-for-other-n")
    ordering(ck, S, first_end)
    # the (date, index) key identifies rotation order only if indices are handed out in increasing order: index = max + 1
    from rules.c09 import next_index
    next_index(ck, S, "C06-O5")
    ck.rule("C06-O10", "the file-count limit given to the constructor reaches the private object's member unchanged (evaluated by cases)")
    from rules.rfs import limits_intact
    limits_intact(ck, S, "C06-O10", "count")
    name_pattern(ck, S, S.m["findRotatedFiles"], "C06-O6", date_is_class=True)
    # ... and the names the writer produces are exactly the names that pattern finds (otherwise the count is never bounded)
    ck.rule("C06-O7", "retention sees every rotated file: the name writer and findRotatedFiles() agree on fields, order, separators, the split of the active name, and the digits of the date (locale-independent)")
    from rules.c09 import name_scheme
    name_scheme(ck, S, "C06-O7")
    ck.rule("C06-O8", "the dates that name rotated files come from one time base (message time, file time and wall clock all local, or all UTC)")
    from rules.rfs import time_base_agreement
    time_base_agreement(ck, S, "C06-O8")
    frontends_keep_count(ck, "C06-O9")
    from rules.c19 import share_ini_obligation
    share_ini_obligation(ck, "C06-O9", "ini|arg|RotatingFileSink", "configure(settings): max_file_count is handed to RotatingFileSink as read")


def frontends_keep_count(ck, rid):
    """the limit reaches the sink with its meaning through the library's configuration front-end: max_file_count <= 0 is "keep every rotated file", 1 "never
    rotate" (the by-cases tabulation of rules/c19.py, obligation ini|value|max_file_count, shared)"""
    import copy
    from rules import c19
    ck.rule(rid, "configure(settings): the value of max_file_count reaches RotatingFileSink unchanged in meaning (<= 0 keep everything, 1 never rotate, N >= 2 at most N files)")
    F = ck.facts
    ini = F.fn("QtLogger::configure", sig_contains="const QSettings &", optional=True)
    if ini is None:
        ck.ob(rid, "(configure)", None, "configure(Pipeline *, const QSettings &, ...) not found", key="frontend|count-meaning")
        return
    sub = copy.copy(ck)
    sub.obligations, sub.rules, sub.functions_analysed, sub.notes = [], {}, set(), []
    try:
        c19.ini_rules(sub, ini)
    except AnalysisBroken:
        pass
    got = [o for o in sub.obligations if (o.get("key") or "").endswith("ini|value|max_file_count")]
    ck.touch(ini)
    if not got:
        ck.ob(rid, sitestr(ini), None, "how max_file_count travels from the settings to the sink could not be followed", key="frontend|count-meaning")
    for o in got:
        ck.ob(rid, o["site"], {"discharged": True, "violated": False}.get(o["verdict"]), o["what"], key="frontend|count-meaning")


def pattern_templates(fn, ck=None):
    """[(template string, [argument nodes], node)] for `<literal>.arg(...)` chains in fn"""
    out = []
    for n in fn.calls("QString::arg"):
        # outermost arg() of a chain only
        p = fn.nodes.get(fn.parent.get(n["id"]))
        if p is not None and is_call(p, "QString::arg") and skip_copies(p.get("obj")).get("id") == n["id"]:
            continue
        args = []
        x = n
        while is_call(x, "QString::arg"):
            these = [a for a in x.get("args", []) if a.get("k") != "defaultarg"]
            args = these + args
            x = skip_copies(x.get("obj"))
        t = const_str(x)
        if t is not None:
            out.append((t, args, n))
    return out


def arg_chains(fn):
    """[(outermost arg() node, template or None, [[argument nodes of the 1st arg() call], [of the 2nd], ...])]"""
    out = []
    for n in fn.calls("QString::arg"):
        p = fn.nodes.get(fn.parent.get(n["id"]))
        if p is not None and is_call(p, "QString::arg") and skip_copies(p.get("obj")).get("id") == n["id"]:
            continue
        groups = []
        x = n
        while is_call(x, "QString::arg"):
            groups.insert(0, [a for a in x.get("args", []) if a.get("k") != "defaultarg"])
            x = skip_copies(x.get("obj"))
        out.append((n, const_str(x), groups))
    return out


INTEGRAL = ("int", "unsigned int", "long", "unsigned long", "long long", "unsigned long long", "short", "unsigned short", "qint64", "quint64", "double", "float")


def placeholder_free(fn, a):
    """can the text this .arg() argument contributes contain a `%<digit>` sequence?  True: cannot / False: it is caller-chosen text /
    None: not known"""
    a0 = skip_copies(a)
    if (a0.get("type") or "").replace("const ", "").strip() in INTEGRAL:
        return True          # arg(int): decimal digits and a sign
    a = deref_local(fn, a0)
    from engine.strabs import OWNER
    fn = OWNER.get(id(a), fn)
    if (a.get("type") or "").replace("const ", "").strip() in INTEGRAL:
        return True
    if is_call(a, ("QString::number", "QByteArray::number")):
        return True
    c = const_str(a)
    if c is not None:
        return "%" not in c
    if is_call(a, ("QDate::toString", "QDateTime::toString", "QTime::toString")):
        fmt = const_str(a["args"][0]) if a.get("args") else None
        # a literal format of digits-producing fields and separators; text fields (MMMM, dddd, AP, t) are locale text
        return True if fmt is not None and re.fullmatch(r"[yMdHhmsz\-_:. T/]*", fmt) and "MMM" not in fmt and "ddd" not in fmt else None
    if is_call(a, "QRegularExpression::escape"):
        return placeholder_free(fn, a["args"][0])      # escape() puts a backslash before the '%' and leaves "%1" readable
    if is_call(a, ("QFileInfo::completeBaseName", "QFileInfo::baseName", "QFileInfo::suffix", "QFileInfo::completeSuffix", "QFileInfo::fileName",
                   "QFileInfo::path", "QFileInfo::absolutePath", "QFileInfo::filePath", "QFileInfo::absoluteFilePath", "QFileDevice::fileName", "QFile::fileName")):
        return False         # a piece of the log file's name, which the user chooses
    if a.get("k") == "ref" and a.get("dk") == "param" and "QString" in (a.get("type") or ""):
        return False
    return None


def single_pass(ck, fn, rid, short=None):
    """QString::arg replaces the lowest-numbered placeholder of the *current* text: in a chain t.arg(a).arg(b) a '%1' inside a's text is
    what .arg(b) replaces.  Every value substituted before the last call of a chain must therefore be unable to contain a placeholder
    (numbers, dates in a numeric format, literals without '%'); free text goes into one multi-argument call or into the last call."""
    import re as _re
    short = short or strip_tmpl(fn.name).split("::")[-1]
    n_chains = 0
    for node, tmpl, groups in arg_chains(fn):
        n_chains += 1
        early = [a for g in groups[:-1] for a in g]
        verdicts = [(a, placeholder_free(fn, a)) for a in early]
        bad = [a for a, v in verdicts if v is False]
        unk = [a for a, v in verdicts if v is None]
        ok = False if bad else None if unk else True
        ck.ob(rid, sitestr(fn, node), ok,
              "%s: %d .arg() call(s) on %r; nothing substituted before the last call can contain a placeholder" % (short, len(groups), tmpl) if ok else
              "%s: %s is substituted by an earlier .arg() of a chain; a '%%1' inside it is replaced by the next .arg() (file name app%%1.log -> app<index>...)" % (short, describe((bad or unk)[0])[:60]) if bad else
              "%s: cannot tell whether %s may contain a placeholder" % (short, describe(unk[0])[:60]),
              key="%s|arg-chain" % short)
    return n_chains


def regex_patterns(F, fn):
    """[(template with %1.. for run-time pieces, [piece nodes], node)] for the regular expressions fn matches with, however they
    are assembled (.arg chains, += pieces, both arms of an if, a helper that builds the expression)"""
    from engine.strabs import regex_templates
    return [(t, [a[1] for a in args], node) for t, args, node in regex_templates(F, fn)]


def name_pattern(ck, S, fn, rid, date_is_class):
    """anchors / escaping / digit classes of the rotated-name patterns of `fn`"""
    tpls = regex_patterns(ck.facts, fn)
    tpls = [t for t in tpls if t[0].startswith("^") or "\\d" in t[0]]
    short = strip_tmpl(fn.name).split("::")[-1]
    ck.require(len(tpls) >= 2, "%s: expected two name patterns (with / without suffix), found %d" % (short, len(tpls)))
    for t, args, n in tpls:
        from rules.rfs import end_anchor
        ekind, _ = end_anchor(t)
        # a loose end anchor ('$', \\Z) lets "<rotated name>\\n" through. For the retention listing that file is then removed (C06: a file
        # outside the scheme is touched); for the index search it only makes an index be skipped, which breaks nothing
        anch = (t.startswith("^") or t.startswith("\\A")) and (ekind == "exact" or (ekind == "loose" and not date_is_class))
        ck.ob(rid, sitestr(fn, n), anch, "pattern %r is anchored at both ends%s" % (t, " (\\z: the end of the name and nothing else)" if ekind == "exact" else "") if anch else
              "pattern %r ends in an anchor that also matches in front of a final line break: a foreign file whose name ends in a newline is taken for a rotated file" % t if ekind == "loose" and t.startswith(("^", "\\A")) else
              "pattern %r is not anchored: look-alike files match" % t, key="%s|pattern-anchors" % short)
        esc = all(is_call(a, "QRegularExpression::escape") for a in args)
        ck.ob(rid, sitestr(fn, n), esc and bool(args), "all %d interpolated pieces pass through QRegularExpression::escape" % len(args) if esc else
              "unescaped piece in the name pattern: %s" % [describe(a) for a in args if not is_call(a, "QRegularExpression::escape")], key="%s|pattern-escape" % short)
        nph = len(set(__import__("re").findall(r"%(\d)", t)))
        ck.ob(rid, sitestr(fn, n), nph == len(args), "%d placeholders, %d arguments" % (nph, len(args)), key="%s|pattern-arity" % short)
        # every dot between the pieces is a literal dot; the index is a digit class
        body = t
        lit_dots = "\\." in body and ".*" not in body and ".+" not in body
        idx_digits = "(\\d+)" in body or "\\d+" in body
        ck.ob(rid, sitestr(fn, n), lit_dots and idx_digits, "separators are literal dots and the index is \\d+" if (lit_dots and idx_digits) else "pattern %r uses wildcards for separators/index" % t, key="%s|pattern-classes" % short)
        if date_is_class:
            okd = "\\d{4}-\\d{2}-\\d{2}" in body
            ck.ob(rid, sitestr(fn, n), okd, "the date is \\d{4}-\\d{2}-\\d{2}" if okd else "the date part of %r is not a digit class" % t, key="%s|pattern-date" % short)
        okgz = end_anchor(body)[1].endswith("(\\.gz)?")
        ck.ob(rid, sitestr(fn, n), okgz, "compressed files (.gz) are candidates as well" if okgz else "pattern %r does not cover the .gz form" % t, key="%s|pattern-gz" % short)
    # only regular files
    el = [n for n in fn.calls("QDir::entryList")]
    ck.require(len(el) == 1, "%s: entryList not found" % short)
    eargs = [a for a in el[0].get("args", [])]
    if eargs and "QStringList" in (skip_copies(eargs[0]).get("type") or "") or (eargs and skip_copies(eargs[0]).get("k") in ("initlist",)) or \
            (eargs and skip_copies(eargs[0]).get("k") == "construct" and "QStringList" in (skip_copies(eargs[0]).get("class") or "") + (skip_copies(eargs[0]).get("type") or "")):
        # entryList(nameFilters, filters, sort): the name filters are wildcard patterns ([...], *, ?). A piece of the log file's own name
        # inside one is interpreted, not matched literally: for `worker[1].log` the filter `worker[1].*` matches none of its rotated files
        nf = eargs[0]
        from engine.strabs import StrEval
        pieces = [x for x in walk(nf) if x.get("k") in ("ref", "call") and ("QString" in (x.get("type") or ""))]
        owner_fn = S.owner(nf) or fn
        namey = []
        work, seen_ = list(pieces), set()
        for _ in range(200):
            if not work:
                break
            x = work.pop()
            if x.get("id") in seen_:
                continue
            seen_.add(x.get("id"))
            y = skip_copies(deref_local(owner_fn, x))
            if is_call(y, ("QFileInfo::completeBaseName", "QFileInfo::baseName", "QFileInfo::fileName", "QFileInfo::suffix", "QFileInfo::completeSuffix", "QFileDevice::fileName", "QFile::fileName")):
                namey.append(y)
            elif y.get("k") == "ref" and y.get("dk") == "param":
                namey.append(y)      # a helper's parameter: the caller hands in text built from the file name
            elif y.get("id") != x.get("id") or y.get("k") == "call":
                work += [z for z in walk(y) if z.get("k") in ("ref", "call") and "QString" in (z.get("type") or "") and z.get("id") not in seen_]
        ck.ob(rid, sitestr(fn, el[0]), False if namey else None,
              "%s lists the directory through a QDir name filter built from %s: name filters are wildcard patterns, so '[', ']', '*' and '?' in the log file's name are interpreted "
              "(worker[1].log: the filter matches none of its own rotated files, the next index is always 1, retention never sees them)" % (short, describe(namey[0])[:40]) if namey else
              "%s lists the directory through name filters this rule cannot evaluate" % short, key="%s|name-filter" % short)
        eargs = eargs[1:]
    fl = const_int(eargs[0]) if eargs else None
    if fl is None and eargs:
        fl = skip_copies(eargs[0]).get("cv")
    # QDir::Files = 0x002, Dirs = 0x001, Hidden = 0x100: every file that can carry a rotated name must be listed, also the rotated
    # files of a dot-file log (~/.app.log), which QDir leaves out unless Hidden is given; directories are no candidates
    # the retention listing looks at regular files only (a directory is never removed); the index search must see EVERY entry that occupies a name -
    # a rename onto a directory called <rotated name> fails as well, and if the search does not see it the same index is handed out for ever
    if date_is_class:
        okf = fl is not None and bool(fl & 0x002) and bool(fl & 0x100) and not (fl & 0x001)
    else:
        okf = fl is not None and bool(fl & 0x002) and bool(fl & 0x100) and bool(fl & 0x001)
    ck.ob(rid, sitestr(fn, el[0]), okf if fl is not None else None, ("regular files, hidden ones included, are listed (QDir::Files | QDir::Hidden)" if date_is_class else "every entry that occupies a name is listed (files, directories, hidden ones)") if okf else
          "entryList filter is %s: %s" % (hex(fl) if fl is not None else "not a constant", "hidden files are left out, so for a log file whose name starts with a dot no rotated file is ever seen "
          "(next index always 1: the previous archive is overwritten; retention never deletes)" if fl is not None and fl & 2 and not fl & 0x100 else
          "directories are left out of the index search: a directory that has the name of the next rotated file makes every rename fail, the index is never advanced and the active file grows without bound"
          if (not date_is_class and fl is not None and not fl & 1) else "not exactly the regular files"), key="%s|entry-filter" % short)
    # the two variants are selected by suffix.isEmpty()
    return tpls


def ordering(ck, S, victim_is_first, R4="C06-O4", R5="C06-O5"):
    F = ck.facts
    fr = S.m["findRotatedFiles"]
    g = S.g(fr)
    sorts = [n for n in fr.calls() if name_is(strip_tmpl(n.get("callee") or ""), ("std::sort", "std::stable_sort"))]
    if len(sorts) > 1:
        # several passes, "minor key first, major key last": only right when every pass after the first keeps the order of the elements it
        # considers equal, i.e. is a stable sort. std::sort is not (libstdc++: introsort above 16 elements, insertion sort below - so small tests pass)
        order = sorted(sorts, key=lambda n_: (n_.get("l", 0), n_.get("c", 0)))
        later_unstable = [n_ for n_ in order[1:] if name_is(strip_tmpl(n_.get("callee") or ""), "std::sort")]
        if later_unstable and all(g.can_reach(g.site_of(order[0]), g.site_of(n_)) for n_ in later_unstable if g.site_of(order[0]) is not None and g.site_of(n_) is not None):
            ck.ob(R4, sitestr(fr, later_unstable[0]), False, "findRotatedFiles orders the files in %d passes and a later pass is std::sort, which is not stable: among files that are equal under the later key (the same day) the order "
                  "established by the earlier pass (the index) is lost once there are more than 16 of them - retention then removes a newer file and keeps an older one" % len(sorts), key="findRotatedFiles|unstable-multipass")
        else:
            ck.ob(R4, sitestr(fr), None, "findRotatedFiles sorts %d times" % len(sorts), key="findRotatedFiles|no-sort")
        return
    if len(sorts) != 1:
        ck.ob(R4, sitestr(fr), False if not sorts else None, "findRotatedFiles sorts %d times" % len(sorts), key="findRotatedFiles|no-sort")
        return
    st = sorts[0]
    lam = [a for a in st["args"] if skip_copies(a).get("k") == "lambda"]
    if not lam:
        ck.ob(R4, sitestr(fr, st), None, "no comparator lambda (default order on names puts index 10 before 9)")
        return
    lf = F.fns.get(skip_copies(lam[0])["fn"])
    ck.require(lf is not None, "comparator body not found")
    ck.touch(lf)
    # what does the comparator read?
    time_calls = [n for n in lf.calls() if name_is(n.get("callee"), ("QFileInfo::lastModified", "QFileInfo::birthTime", "QFileInfo::created", "QFileInfo::metadataChangeTime", "QFileInfo::lastRead", "QFileInfo::fileTime"))]
    a_decl, b_decl = lf.params[0]["decl"], lf.params[1]["decl"]
    fields = {}
    for n in lf.find(lambda n: n.get("k") == "member" and n.get("dk") == "field"):
        base = skip_copies(n.get("base"))
        if is_ref_to(base, a_decl) or is_ref_to(base, b_decl):
            fields.setdefault(n["name"].split("::")[-1], n["name"])
    if time_calls and not fields:
        ck.ob(R5, sitestr(lf, time_calls[0]), False, "rotated files are ordered by %s only: rotations within one timestamp tick tie and the name pre-sort puts index 10 before 9, so newer files can be deleted first" % describe(time_calls[0])[:60],
              key="findRotatedFiles|mtime-only-order")
        return
    if time_calls:
        ck.ob(R5, sitestr(lf, time_calls[0]), None, "comparator mixes modification time and name fields; idiom not recognised")
        return
    if not fields:
        ck.ob(R4, sitestr(lf), None, "comparator reads no element field; idiom not recognised")
        return
    # element provenance: fields of the element struct <- captured groups
    etype = lf.params[0]["type"].replace("const ", "").replace(" &", "").strip()
    rec = None
    for r in F.records.values():
        if r["name"] == etype or etype.endswith(r["name"].split("::")[-1]) and r["name"].endswith("RotatedFile") or r["name"] == etype:
            rec = r
    recs = [r for r in F.records.values() if etype.endswith(r["name"])] or ([rec] if rec else [])
    ck.require(recs, "element type %s of the sorted list not found" % etype)
    rec = recs[0]
    fnames = [f["name"] for f in rec["fields"]]
    ftypes = {f["name"]: f["type"] for f in rec["fields"]}
    apps = [n for n in fr.calls() if n.get("ck") == "member" and name_is(n.get("callee"), ("append", "push_back", "emplace_back")) and skip_copies(n["args"][0]).get("k") in ("initlist", "construct")]
    srcs = {}
    for ap in apps:
        el = skip_copies(ap["args"][0])
        vals = el.get("els") if el.get("k") == "initlist" else el.get("args")
        if vals and len(vals) == len(fnames):
            for nm, v in zip(fnames, vals):
                srcs.setdefault(nm, []).append(v)
    tpls = regex_patterns(F, fr)
    grp_kind = {}
    for t, args, n in tpls:
        gs = regex_groups(t)
        for i, (content, pos) in enumerate(gs):
            kind = "date" if content == "\\d{4}-\\d{2}-\\d{2}" else "index" if content == "\\d+" else "gz" if content == "\\.gz" else "other"
            grp_kind.setdefault(i + 1, set()).add(kind)
    role = {}
    for nm in fields:
        vs = srcs.get(nm, [])
        if len(vs) != 1:
            ck.ob(R4, sitestr(fr), None, "field %s of the sort element is filled at %d sites" % (nm, len(vs)))
            return
        v = skip_copies(vs[0])
        cap = [x for x in walk(v) if is_call(x, "QRegularExpressionMatch::captured")]
        if len(cap) != 1:
            # not part of the name's (date, index): may only serve as a tie-breaker behind them (decided by the evaluation below)
            role[nm] = "tie"
            continue
        gi = const_int(cap[0]["args"][0])
        kinds = grp_kind.get(gi, set())
        if kinds == {"date"}:
            role[nm] = "date"
            okt = ftypes[nm] in ("QString", "QDate", "const QString", "QByteArray")
            ck.ob(R4, sitestr(fr, v), okt and not lossy_wrappers(v), "%s = captured date (group %d), compared as %s" % (nm, gi, ftypes[nm]), key="findRotatedFiles|date-field")
        elif kinds == {"index"}:
            role[nm] = "index"
            numeric = ftypes[nm] in ("int", "long", "long long", "unsigned int", "qint64", "qlonglong", "unsigned long", "unsigned long long") and any(is_call(x, ("QString::toInt", "QString::toLongLong", "QString::toUInt", "QString::toLong", "QString::toULongLong")) for x in walk(v))
            ck.ob(R4, sitestr(fr, v), numeric, "%s = numeric value of the captured index (group %d)" % (nm, gi) if numeric else
                  "the index is compared as %s %s: \"10\" sorts before \"9\"" % (ftypes[nm], describe(v)), key="findRotatedFiles|index-not-numeric")
        else:
            ck.ob(R4, sitestr(fr, v), None, "field %s comes from group %s (%s)" % (nm, gi, kinds))
            return
    if set(role.values()) - {"tie"} != {"date", "index"}:
        ck.ob(R5, sitestr(lf), False, "the ordering key is %s: it does not contain both the date and the index of the rotated name, so it cannot identify rotation order" % sorted(role.values()),
              key="findRotatedFiles|key-incomplete")
        return
    ck.ob(R5, sitestr(lf), True, "the ordering key is (date, index) taken from the name that rotate() assigns in rotation order")
    # exhaustive evaluation of the comparator on a small domain
    gl = Graph(lf)
    ties = (0, 1) if "tie" in role.values() else (0,)
    dom = [(d, i, t) for d in (1, 2) for i in (9, 10) for t in ties]
    asc = desc = True
    unknown = False
    for (ad, ai, at), (bd, bi, bt) in itertools.product(dom, dom):
        def leaf(n, ad=ad, ai=ai, bd=bd, bi=bi, at=at, bt=bt):
            if n.get("k") == "member" and n.get("dk") == "field":
                base = skip_copies(n.get("base"))
                nm = n["name"].split("::")[-1]
                if nm in role:
                    if is_ref_to(base, a_decl):
                        return {"date": ad, "index": ai, "tie": at}[role[nm]]
                    if is_ref_to(base, b_decl):
                        return {"date": bd, "index": bi, "tie": bt}[role[nm]]
            if n.get("k") == "call" and n.get("op") in ("<", ">", "<=", ">=", "==", "!=") and len(n.get("args", [])) == 2:
                def ev(x):
                    # std::tie / make_tuple / pair of key fields compare lexicographically, like Python tuples
                    x = skip_copies(x)
                    if isinstance(x, dict) and x.get("k") in ("call", "construct") and strip_tmpl(x.get("callee") or x.get("class") or "") in (
                            "std::tie", "std::make_tuple", "std::forward_as_tuple", "std::make_pair", "qMakePair", "std::tuple", "std::pair", "QPair"):
                        parts = [ev(a) for a in x.get("args", [])]
                        return None if any(p is None for p in parts) else tuple(parts)
                    return eval_int(x, leaf)
                x, y = ev(n["args"][0]), ev(n["args"][1])
                if x is None or y is None or type(x) != type(y):
                    return None
                return int({"<": x < y, ">": x > y, "<=": x <= y, ">=": x >= y, "==": x == y, "!=": x != y}[n["op"]])
            return None
        atom = lambda n, leaf=leaf: (None if eval_int(n, leaf) is None else bool(eval_int(n, leaf))) if n.get("k") in ("binop", "call", "unop", "member") else None
        keep = gl.projector(atom)
        live = gl.live(keep)
        vals = set()
        for r in returns(lf):
            if gl.site_of(r) in live:
                v = eval_int(r.get("e"), leaf)
                vals.add(v)
        if len(vals) != 1 or None in vals:
            unknown = True
            break
        got = bool(vals.pop())
        if (ad, ai) == (bd, bi):
            continue      # same (date, index): x.log next to x.log.gz - any tie-breaker will do
        if got != ((ad, ai) < (bd, bi)):
            asc = False
        if got != ((ad, ai) > (bd, bi)):
            desc = False
    if unknown:
        ck.ob(R4, sitestr(lf), None, "comparator could not be evaluated on the symbolic domain")
        return
    ck.ob(R4, sitestr(lf), asc or desc, "comparator is the strict lexicographic order on (date, index)%s: %d/%d pairs (%s)" % (", other fields only break ties" if len(ties) > 1 else "", len(dom) ** 2, len(dom) ** 2, "ascending" if asc else "descending") if (asc or desc) else
          "comparator is not the lexicographic order on (date, index): a file of a later day / higher index can be ordered before an older one and is then deleted first", key="findRotatedFiles|comparator")
    if asc or desc:
        oldest_first = asc
        ok = (victim_is_first == oldest_first)
        ck.ob(R4, sitestr(S.m["removeOldFiles"]), ok, "the victim is the oldest element (%s of an %s list)" % ("first" if victim_is_first else "last", "ascending" if asc else "descending") if ok else
              "the victim is the NEWEST rotated file (%s of an %s list)" % ("first" if victim_is_first else "last", "ascending" if asc else "descending"), key="removeOldFiles|victim-newest")
    # the sorted list is what is returned (paths in that order)
    rs = returns(fr)
    ck.ob(R4, sitestr(fr), len(rs) == 1, "single return of the ordered list", key="findRotatedFiles|return")


def counted_prefix(fn, remove_call, victim):
    """recognises  for (i = 0; i < BOUND; ++i) remove(list.at(i))  over a list that the loop does not modify;
    returns {list, bound, cond} or None"""
    v = skip_copies(victim)
    obj = v.get("obj") if v.get("ck") == "member" else (v.get("args") or [None])[0]
    idx = (v.get("args") or [None])[-1]
    lst = skip_copies(obj)
    iv = skip_copies(idx)
    if not (isinstance(lst, dict) and lst.get("k") == "ref" and isinstance(iv, dict) and iv.get("k") == "ref"):
        return None
    loops = [l for l in enclosing_loops(fn, remove_call) if l.get("k") == "for"]
    if not loops:
        return None
    loop = loops[0]
    init = loop.get("init")
    okinit = isinstance(init, dict) and init.get("k") == "decl" and len(init.get("vars", [])) == 1 and init["vars"][0].get("decl") == iv.get("decl") and const_int(init["vars"][0].get("init")) == 0
    cond = skip_copies(loop.get("cond"))
    okcond = isinstance(cond, dict) and cond.get("k") == "binop" and cond.get("op") == "<" and is_ref_to(cond.get("lhs"), iv.get("decl"))
    inc = skip_copies(loop.get("inc"))
    okinc = isinstance(inc, dict) and inc.get("k") == "unop" and inc.get("op") == "++" and is_ref_to(inc.get("e"), iv.get("decl"))
    other_writes = [r for r in refs_to(fn, iv["decl"]) if (write_kind(fn, r) or assignment_target(fn, r)[0] is not None) and not any(a.get("id") == inc.get("id") for a in [fn.nodes.get(fn.parent.get(r["id"]), {})])]
    list_writes = [r for r in refs_to(fn, lst["decl"]) if write_kind(fn, r) or assignment_target(fn, r)[0] is not None]
    if not (okinit and okcond and okinc) or other_writes or list_writes:
        return None
    return {"list": lst, "bound": cond.get("rhs"), "cond": cond}


def retention_victim_is_oldest(ck, S, RID):
    """for other properties: retention removes the oldest rotated file by (date, index) - if it removed the newest one of a day,
    that day's highest index would be free again and the next rotation would reuse the name"""
    ro = S.m["removeOldFiles"]
    removes = [n for n in ro.calls() if destructive_kind(n) == "remove"]
    ck.require(len(removes) == 1, "removeOldFiles has %d remove calls" % len(removes))
    victim = deref_local(ro, skip_copies(removes[0]["args"][0]))
    first_end = is_call(victim, ("first", "constFirst", "front", "takeFirst"))
    if is_call(victim, ("at", "operator[]", "value")) or (isinstance(victim, dict) and victim.get("k") == "call" and victim.get("op") == "[]"):
        first_end = True
    vv_ = skip_copies(victim) if isinstance(victim, dict) else None
    if isinstance(vv_, dict) and vv_.get("k") == "call" and vv_.get("op") == "*" and vv_.get("args") and iterator_from_begin(ro, vv_["args"][0]) is not None:
        first_end = True        # a front-to-back walk: the elements at the front of the list
    if not first_end and not is_call(victim, ("last", "constLast", "back", "takeLast")):
        ck.ob(RID, sitestr(ro, removes[0]), None, "which end of the ordered list retention removes from (%s) is not recognised" % describe(victim)[:40], key="removeOldFiles|victim-end")
        return
    ordering(ck, S, first_end, RID, RID)


def unlimited_deletes_nothing(ck, S, rid):
    """with maxFileCount <= 0 retention deletes nothing, whatever members the constructor derives from the count (shared with C10:
    'not deleting beyond the retention policy')"""
    ro = S.m["removeOldFiles"]
    g = S.g(ro)
    removes = [n for n in ro.calls() if destructive_kind(n) == "remove"]
    if len(removes) != 1:
        ck.ob(rid, sitestr(ro), None, "removeOldFiles has %d remove calls" % len(removes), key="removeOldFiles|deletes-when-unlimited")
        return
    rs = g.site_of(removes[0])
    lists = {skip_copies(x.get("obj")).get("decl") for x in ro.calls() if is_call(x, ("size", "count", "length", "isEmpty")) and isinstance(x.get("obj"), dict) and skip_copies(x["obj"]).get("k") == "ref"}
    bad, unk = [], False
    for N in (-3, -1, 0):
        for sz in (0, 1, 5):
            def extra(n, sz=sz):
                if is_call(n, ("size", "count", "length")) and skip_copies(skip_copies(n).get("obj") or {}).get("decl") in lists:
                    return sz
                if is_call(n, ("isEmpty",)) and skip_copies(skip_copies(n).get("obj") or {}).get("decl") in lists:
                    return int(sz == 0)
                return None
            lf = S.count_leaf(N, extra)
            if rs in g.live(g.projector(numeric_atom(ro, lf))):
                at = numeric_atom(ro, lf)
                from engine.cfg import eval_cond
                conds = [n_["cond"] for n_ in ro.all_nodes() if n_.get("k") in ("if", "while", "for") and isinstance(n_.get("cond"), dict) and
                         any(x.get("k") == "member" and x.get("dk") == "field" for x in walk(n_["cond"]))]
                if all(eval_cond(c_, at, ro) is not None for c_ in conds):
                    bad.append((N, sz))
                else:
                    unk = True
    ck.ob(rid, sitestr(ro, removes[0]), False if bad else None if unk else True,
          "with (maxFileCount, rotated files) = %s retention deletes a file although the limit is <= 0 ('keep everything')" % bad[:3] if bad else
          "the guards of removeOldFiles() could not be evaluated for maxFileCount <= 0" if unk else "with maxFileCount in {-3,-1,0} retention deletes nothing", key="removeOldFiles|deletes-when-unlimited")
