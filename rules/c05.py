"""C05 — rotation never loses, duplicates, reorders or splits a record: the write/rotate protocol (DESIGN.md section 3, C05)."""
from engine.util import *
from rules.rfs import *

LEVEL = "other"
MIN_OBLIGATIONS = 14
TECHNIQUE = "CFG must-pass/dominance rules on RotatingFileSink::send and IODeviceSink::send, constant-folded open flags, who-may-call allow-list of destructive file operations scoped by call-graph reachability with def-use provenance of their arguments; hand-over rule (close/flush dominates rename and compression), max+1 index rule and writer/reader name-scheme agreement shared with C09, binary-mode rule; single-pass rule for .arg() chains (nothing substituted before the last call can contain a placeholder); CRC-32 of the gzip trailer decided by evaluation (shared with C08); the per-date name pattern is built from the date asked for (a member cache filled under a guard that does not compare dates is stale, unless every writer of the file date drops it); who-may-call rule: no symbolic-link resolution of the configured path in the rotating sink"
LEVEL_TEXT = ("Decides the history-independent write/rotate protocol on all paths: every send initialises, rotates if needed and then writes the record exactly once as one buffer ending in "
              "one newline; rotate() always reopens the active file in append mode without truncation; the only calls that can destroy file data reachable from the sink's entry points "
              "are the three sanctioned ones with sanctioned arguments; rotation code never writes record bytes. Byte-for-byte equality over histories is run-time and not decided.")
LEVEL_NOTE = "trusts QFile semantics (rename atomic and refuses an existing target, close() flushes, Append never truncates)"
DESIGN_REF = "DESIGN.md section 3, C05"
EXPLANATION = ("Path rules over RotatingFileSink::send, IODeviceSink::send, RotatingFileSinkPrivate::rotate and FileSink's constructor; enumeration of every remove/rename/resize/truncating-open call "
               "in functions reachable (resolved call graph) from the file sinks' constructors, send, flush and destructors, each checked against an allow-list of (function, callee, argument provenance).")
TRUSTED = ["QFile::rename(old, new) fails instead of overwriting an existing file", "QIODevice::write(QByteArray) writes the whole buffer to the device's buffer", "QFile::close() flushes buffered data"]
ASSUMPTIONS = ["a single sink object per file (the library's usage)"]
NOT_DECIDED = ["byte-for-byte equality of the concatenated files for concrete histories (file-system state)", "compressed content (C08)", "retention (C06)"]
THOROUGH_CONFIGS = ("headeronly",)


def record_framing(ck, S, RID):
    """per record exactly one device write of one buffer = encode(formattedMessage()) + one newline - in IODeviceSink::send and wherever else the rotating
    sink hands a record to the device itself (a protected write helper of the base class spliced into RotatingFileSink::send)"""
    F = ck.facts
    dev_write = lambda fn_: [n for n in fn_.calls() if name_is(n.get("callee"), ("QIODevice::write", "QIODevice::putChar")) and is_this_field(unwrap_ptr(n.get("obj")), IO + "::m_device")]
    units = [(S.io_send, "IODeviceSink::send")]
    if dev_write(S.send):
        units.append((S.send, "RotatingFileSink::send"))
    for fn, uname in units:
        _record_framing_unit(ck, S, RID, fn, uname, dev_write(fn))


def _record_framing_unit(ck, S, RID, fn, uname, writes):
    g = S.g(fn)
    def dev_atom(val):
        def atom(n):
            if is_call(n, ("isNull",)) and is_this_field(skip_copies(n).get("obj"), IO + "::m_device"):
                return not val
            if is_this_field(n, IO + "::m_device"):
                return val
            return None
        return atom
    if len(writes) != 1:
        ck.ob(RID, sitestr(fn), False, "%s performs %d device writes per record (a rotation or another thread's record could separate them)" % (uname, len(writes)) if writes else "%s no longer writes" % uname, key="%s|write-count" % uname)
        return
    w = writes[0]
    ws = g.site_of(w)
    keep = g.projector(dev_atom(True))
    ok = g.must_pass({ws}, keep=keep) and not g.in_cycle(ws)
    ck.ob(RID, sitestr(fn, w), ok, "with a device: exactly one write on every path" if ok else "with a device: the write is conditional or repeated", key="%s|write-conditional" % uname)
    ok = ws not in g.live(g.projector(dev_atom(False)))
    ck.ob(RID, sitestr(fn, w), ok, "without a device nothing is dereferenced", key="%s|null-device" % uname)
    buf = deref_local(fn, w["args"][0]) if w.get("args") else None
    b0 = skip_copies(w["args"][0]) if w.get("args") else None
    if isinstance(b0, dict) and b0.get("k") == "ref" and b0.get("dk") == "local" and skip_copies(buf).get("id") == b0.get("id"):
        # the record is built in a named buffer step by step: initialiser, then appends (straight-line history)
        try:
            hist = var_history(fn, g, b0["decl"])
        except AnalysisBroken:
            hist = None
        if hist:
            pieces = []
            okh = True
            for kind, node, rhs in hist:
                if kind == "init":
                    pieces.append(rhs)
                elif kind == "call" and is_call(node, ("QByteArray::append", "QByteArray::push_back", "QByteArray::operator+=")):
                    pieces.append(node)
                elif kind == "assign":
                    pieces.append(rhs)
                elif kind == "use":
                    continue
                else:
                    okh = False
            if okh and pieces:
                # a synthetic concatenation node so that the same counting applies
                buf = {"id": -1, "k": "initlist", "els": [p_ for p_ in pieces if isinstance(p_, dict)]}
    buf = expand_locals(fn, buf)

    def pieces_of(e, hist_member=False):
        e = skip_copies(e)
        if not isinstance(e, dict):
            return []
        if e.get("k") == "initlist":
            out = []
            for i_, x in enumerate(e.get("els", [])):
                x_ = skip_copies(x)
                # a history element `buf.append(x)` contributes x only (buf itself is the pieces before it)
                if i_ > 0 and isinstance(x_, dict) and is_call(x_, ("QByteArray::append", "QByteArray::push_back", "QByteArray::operator+=")) and x_.get("args"):
                    out += pieces_of(x_["args"][0])
                else:
                    out += pieces_of(x)
            return out
        if e.get("k") == "call" and e.get("ck") == "operator" and e.get("op") in ("+", "+=") and len(e.get("args", [])) == 2:
            return pieces_of(e["args"][0]) + pieces_of(e["args"][1])
        if is_call(e, ("QByteArray::append", "QByteArray::push_back", "QByteArray::operator+=")) and e.get("args") and isinstance(e.get("obj"), dict):
            return pieces_of(e["obj"]) + pieces_of(e["args"][0])
        if e.get("k") in ("construct", "cast", "materialize", "bindtemp") and len(e.get("args") or ([e["e"]] if isinstance(e.get("e"), dict) else [])) == 1 and "QByteArray" in (e.get("type") or e.get("class") or "QByteArray"):
            return pieces_of((e.get("args") or [e.get("e")])[0])
        return [e]
    ps = pieces_of(buf)

    def kind_of(x):
        if const_str(x) == "\n" or (isinstance(x, dict) and x.get("k") in ("char", "int") and x.get("v") == 10):
            return "nl"
        if is_call(x, ("QString::toLocal8Bit", "QString::toUtf8")):
            o = skip_copies(x.get("obj"))
            if is_call(o, LM + "::formattedMessage") and obj_is_param(o, fn, 0):
                return "text"
        return "other"
    kinds = [kind_of(x) for x in ps]
    ok = kinds == ["text", "nl"] and not lossy_wrappers(buf) and len(w["args"]) == 1
    ck.ob(RID, sitestr(fn, w), ok, "the buffer is encode(formattedMessage()) + one newline, written whole" if ok else
          "record buffer is %s (pieces: %s; lossy:%s)" % (describe(buf)[:90], kinds, lossy_wrappers(buf)), key="%s|framing" % uname)


def run(ck):
    S = Sink(ck)
    F = ck.facts
    ck.rule("C05-O1", "RotatingFileSink::send: init, then rotateIfNeeded, then the inherited write, each on every path")
    ck.rule("C05-O2", "IODeviceSink::send: with a device, exactly one write per call of one buffer = encoded formattedMessage() + one '\\n'")
    ck.rule("C05-O3", "rotate(): after close() every path reopens the same file with WriteOnly|Append and without Truncate; FileSink opens with Append")
    ck.rule("C05-O4", "destructive file calls reachable from the sinks' entry points are exactly: rotate(): rename(active name -> generated rotated name); compressFile(): open(path+'.gz') and remove(its parameter); removeOldFiles(): remove(first of findRotatedFiles())")
    ck.rule("C05-O5", "rotation code never writes record bytes: device writes reachable from rotateIfNeeded go to compressFile's own output file only")
    ck.rule("C05-O6", "a rotated name is never handed out twice: the next index is 1 + the maximum over every existing plain or .gz entry of that date (else compressFile() truncates an existing archive / rename fails and the history is lost or merged)")
    from rules.c09 import next_index, daily, name_scheme
    next_index(ck, S, "C05-O6")
    # ... and the scan that finds the existing indices reads exactly the names the writer produces: if the two split the active
    # file's name differently (svc.err.log), no existing file is ever seen and index 1 is handed out again and again
    name_scheme(ck, S, "C05-O6")
    from rules.rfs import names_stay_in_the_configured_directory
    names_stay_in_the_configured_directory(ck, S, "C05-O6")
    # "decompressing compressed ones": a reader checks the trailer, so the archive's checksum must be the CRC-32 of what was compressed
    ck.rule("C05-O8", "the CRC-32 written into the gzip trailer is the standard one over every byte of the rotated file (shared with C08-O4): a wrong checksum makes the records unreadable for any gzip reader")
    from rules.c08 import crc32, single_deflate_stream
    crc32(ck, S, "C05-O8")
    single_deflate_stream(ck, S, "C05-O8")
    # ... over a listing that leaves no rotated file out (anchored, escaped pattern; plain and .gz; hidden files included)
    from rules.c06 import name_pattern
    name_pattern(ck, S, S.m["findNextIndexForDate"], "C05-O6", date_is_class=False)
    ck.rule("C05-O7", "rotation order = name order: with daily rotation every file is dated with the day of the records written to it on every path before the write (a size rotation must not leave the new file dated by the clock), so reading by (date, index) is reading in write order")
    daily(ck, S, RP + "::m_currentLogDate", "C05-O7")
    ck.rule("C05-O8", "compression copies bytes: the rotated file is read and the .gz written in binary mode (a Text-mode read drops every CR)")
    cfz = S.m["compressFile"]
    for o in cfz.calls(("QFile::open", "QIODevice::open", "QFileDevice::open", "QSaveFile::open")):
        fl = open_flags(o)
        ck.ob("C05-O8", sitestr(cfz, o), (fl is not None and not fl & OPEN_FLAGS["Text"]) if fl is not None else None,
              "%s opened with %s (binary)" % (describe(o.get("obj")), flagnames(fl)) if (fl is not None and not fl & OPEN_FLAGS["Text"]) else
              "%s is opened with %s: Qt's text mode rewrites line ends, the compressed copy is not byte-identical" % (describe(o.get("obj")), flagnames(fl)), key="compressFile|text-mode")
    # ---- O1
    fn = S.send
    g = S.g(fn)
    c_init = [n for n in S.calls_to(fn, "init")]
    c_rot = [n for n in S.calls_to(fn, "rotateIfNeeded") if arg_is_param(n, 0, fn, 0) or S.message_derived(fn, n)]
    c_wr = S.record_writes(fn)
    if not (c_init and c_rot and c_wr):
        ck.ob("C05-O1", sitestr(fn), False, "send() no longer calls init/rotateIfNeeded/base send (%d/%d/%d)" % (len(c_init), len(c_rot), len(c_wr)), key="RotatingFileSink::send|missing-step")
    else:
        si, sr, sw = g.site_of(c_init[0]), g.site_of(c_rot[0]), g.site_of(c_wr[0])
        # a device write spliced in from the base class's helper sits behind its "no device" guard; with a device it is unconditional
        has_dev = lambda n_: (False if (is_call(n_, ("isNull",)) and is_this_field(skip_copies(n_).get("obj"), IO + "::m_device")) else True if is_this_field(n_, IO + "::m_device") else None)
        for nm, s in (("init()", si), ("rotateIfNeeded()", sr), ("the record write", sw)):
            ok = g.must_pass({s}, keep=g.projector(has_dev)) and not g.in_cycle(s)
            ck.ob("C05-O1", sitestr(fn), ok, "%s runs exactly once on every path" % nm if ok else "%s is skipped on some path (a record can be dropped or written to the wrong file)" % nm, key="RotatingFileSink::send|%s-skipped" % nm)
        ok = g.dominated(sr, {si}) and g.dominated(sw, {sr}) and len(c_wr) == 1
        ck.ob("C05-O1", sitestr(fn), ok, "order: init < rotateIfNeeded < write (the record goes to the possibly new file)" if ok else "init/rotate/write are not in this order", key="RotatingFileSink::send|order")
        tgt = F.fns.get(c_wr[0].get("fn"))
        direct = name_is(c_wr[0].get("callee"), ("QIODevice::write", "QIODevice::putChar"))
        ok = direct or (tgt is not None and tgt.id == S.io_send.id)
        ck.ob("C05-O1", sitestr(fn, c_wr[0]), ok, ("the write is the device write of the base class's helper (its buffer: C05-O2)" if direct else "the write is IODeviceSink::send (FileSink does not override it)") if ok else
              "the write resolves to %s" % c_wr[0].get("callee"), key="RotatingFileSink::send|write-target")
    record_framing(ck, S, "C05-O2")
    # ---- O3
    closed_before_handover(ck, S, "C05-O3", "C05")
    fn = S.m["rotate"]
    g = S.g(fn)
    closes = [n for n in fn.calls(("QFileDevice::close", "QFile::close", "QIODevice::close")) if S.is_active_file(n.get("obj"))]
    opens = [n for n in fn.calls(("QFile::open", "QIODevice::open", "QFileDevice::open")) if S.is_active_file(n.get("obj"))]
    if not closes or not opens:
        ck.ob("C05-O3", sitestr(fn), None if not closes else False, "rotate(): %d close / %d open of the active file" % (len(closes), len(opens)), key="rotate|no-reopen")
    else:
        osites = set(g.sites_of_nodes(opens))
        for c in closes:
            ok = g.postdominated(g.site_of(c), osites)
            ck.ob("C05-O3", sitestr(fn, c), ok, "after close() every path reopens the active file" if ok else "a path leaves rotate() with the active file closed (later records are lost)", key="rotate|no-reopen")
        for o in opens:
            fl = open_flags(o)
            ok = fl is not None and fl & 2 and fl & 4 and not fl & 8
            ck.ob("C05-O3", sitestr(fn, o), ok if fl is not None else None, "reopen flags %s" % flagnames(fl), key="rotate|reopen-flags")
    ct = S.fs_ctor
    g = S.g(ct)
    opens = [n for n in ct.calls(("QFile::open", "QIODevice::open", "QFileDevice::open"))]
    ok = len(opens) == 1 and g.must_pass({g.site_of(opens[0])})
    fl = open_flags(opens[0]) if opens else None
    ok = ok and fl is not None and fl & 2 and fl & 4 and not fl & 8
    ck.ob("C05-O3", sitestr(ct), ok, "FileSink opens its file once with %s (a restart continues the file)" % flagnames(fl) if ok else "FileSink open flags %s" % flagnames(fl), key="FileSink|open-flags")
    # ---- O4
    sites = S.destructive_sites()
    ck.require(len(sites) >= 4, "fewer destructive call sites than confirmed by hand (%d < 4)" % len(sites))
    for f, n, k in sites:
        ok, why = allowed_destructive(S, f, n, k)
        ck.ob("C05-O4", sitestr(f, n), ok, "%s: %s" % (describe(n)[:70], why) if ok else "unsanctioned destructive call %s: %s" % (describe(n)[:90], why),
              key="destructive|%s|%s|%s" % (strip_tmpl(f.name).split("::")[-1], k, why if not ok else "ok"))
    # retention is sanctioned to delete *the oldest* rotated files only: which files it takes is decided by executing it by cases
    from rules.rfs import retention_by_cases
    v_, why_ = retention_by_cases(ck, S, "C05-O4")
    if v_ is not None:
        ck.ob("C05-O4", sitestr(S.m["removeOldFiles"]), v_, why_ if v_ else why_ + ": records that the configured limit says to keep are deleted", key="destructive|removeOldFiles|by-cases")
    # ---- O5
    from engine.inline import owner_of
    rr = F.reachable_from([S.m["rotateIfNeeded"]], virtual=False)
    flat = {f.id: f for f in S.flat_units()}
    seen_w = set()
    for fid in sorted(rr):
        f = F.fns.get(fid)
        if f is None:
            continue
        if fid in flat:
            f = flat[fid]
        elif owner_of(F, f, stop=S.units).id in flat and owner_of(F, f, stop=S.units).id != fid:
            continue   # spliced into its owner and judged there
        for n in f.calls(("QIODevice::write", "QIODevice::putChar", "QFile::write")):
            if (n.get("l"), n.get("c")) in seen_w:
                continue
            seen_w.add((n.get("l"), n.get("c")))
            o = skip_copies(deref_local(f, n.get("obj")))
            # the object written to must be a file object created inside compressFile (its own output), never the sink's file
            local_obj = isinstance(o, dict) and o.get("k") == "ref" and o.get("dk") == "local" and not o.get("inl_param")
            own = f.id == S.m["compressFile"].id and local_obj and not S.is_active_file(o, f)
            ck.ob("C05-O5", sitestr(f, n), own, "write to compressFile's own output file" if own else "rotation code writes to %s" % describe(n.get("obj")), key="rotation-writes|%s" % strip_tmpl(f.name).split("::")[-1])


def strip_path_encoding(f, x):
    """the QString path behind `QFile::encodeName(path).constData()`, `path.toLocal8Bit().data()`, `path.toStdString().c_str()`"""
    x = deref_local(f, x)
    for _ in range(6):
        y = skip_copies(x)
        if not isinstance(y, dict) or y.get("k") != "call":
            break
        short = (y.get("callee") or "").split("::")[-1]
        if y.get("ck") == "member" and short in ("constData", "data", "c_str", "toLocal8Bit", "toUtf8", "toStdString", "toLatin1") and isinstance(y.get("obj"), dict) and not [a for a in y.get("args", []) if a.get("k") != "defaultarg"]:
            x = deref_local(f, y["obj"])
            continue
        if strip_tmpl(y.get("callee") or "") in ("QFile::encodeName", "QString::toLocal8Bit", "QDir::toNativeSeparators") and y.get("args"):
            x = deref_local(f, y["args"][0])
            continue
        break
    return x


def allowed_destructive(S, f, n, k):
    short = strip_tmpl(f.name).split("::")[-1]
    if f.id == S.m["rotate"].id and k == "remove":
        # removing the name the active file is about to be renamed to: the index is one past every existing rotated file
        # (C09-O3 / the next-index rules), so nothing carries that name; with a stale file under it the removal is what
        # lets the rotation go on
        a = n.get("args", [])
        tgt = strip_path_encoding(f, a[0]) if len(a) == 1 else None
        if isinstance(tgt, dict) and skip_copies(tgt).get("k") == "call" and skip_copies(tgt).get("fn") == S.m["generateRotatedFileName"].id:
            rn = [x for x in f.calls() if destructive_kind(x) == "rename" and len(x.get("args", [])) == 2 and skip_copies(strip_path_encoding(f, x["args"][1])).get("id") == skip_copies(tgt).get("id")]
            if rn:
                return True, "removes the fresh target name of the rename that follows"
        return False, "remove(%s)" % describe(a[0] if a else None)[:40]
    if f.id == S.m["rotate"].id and k == "rename":
        a = n.get("args", [])
        if len(a) != 2:
            return False, "unexpected arity"
        src = strip_path_encoding(f, a[0])
        dst = strip_path_encoding(f, a[1])
        oks = is_call(src, ("QFile::fileName", "QFileDevice::fileName")) and S.is_active_file(skip_copies(src).get("obj"))
        okd = isinstance(skip_copies(dst), dict) and skip_copies(dst).get("k") == "call" and skip_copies(dst).get("fn") == S.m["generateRotatedFileName"].id
        if oks and okd:
            return True, "active file -> generateRotatedFileName(...)"
        return False, "rename(%s -> %s)" % (describe(src)[:40], describe(dst)[:40])
    if f.id == S.m["compressFile"].id and k == "remove":
        a = n.get("args", [])
        if len(a) == 1 and is_ref_to(a[0], f.params[0]["decl"]):
            return True, "removes its parameter (the rotated file just compressed)"
        if len(a) == 1:
            # giving up: the archive it has itself just created (<parameter>.gz) is taken away again while the rotated file stays -
            # accepted when no path through this call also removes the parameter
            leaves = concat_leaves(deref_local(f, a[0]))
            if len(leaves) == 2 and is_ref_to(leaves[0], f.params[0]["decl"]) and const_str(leaves[1]) == ".gz":
                g_ = S.g(f)
                here = g_.site_of(n)
                others = [g_.site_of(x) for x in f.calls() if destructive_kind(x) == "remove" and x.get("args") and len(x["args"]) == 1 and is_ref_to(x["args"][0], f.params[0]["decl"])]
                if here is not None and all(o is not None and not g_.can_reach(here, o) and not g_.can_reach(o, here) for o in others):
                    return True, "removes <parameter>.gz, its own incomplete output, on a path that keeps the rotated file"
        return False, "remove(%s)" % describe(a[0] if a else None)
    if f.id == S.m["compressFile"].id and k.startswith("open"):
        o = skip_copies(n.get("obj"))
        if o.get("k") == "ref" and o.get("dk") == "local":
            dn, var = local_var(f, o["decl"])
            init = skip_copies(var.get("init")) if var else None
            while isinstance(init, dict) and init.get("k") == "construct" and init.get("class") in ("QFile", "QSaveFile") and init.get("args") and skip_copies(init["args"][0]).get("k") == "construct":
                init = skip_copies(init["args"][0])
            if isinstance(init, dict) and init.get("k") == "construct" and init.get("class") in ("QFile", "QSaveFile") and init.get("args"):
                p = deref_local(f, init["args"][0])
                leaves = concat_leaves(p)
                if len(leaves) == 2 and is_ref_to(leaves[0], f.params[0]["decl"]) and const_str(leaves[1]) == ".gz":
                    return True, "creates <parameter>.gz"
                return False, "truncating open of %s" % describe(p)
        return False, "truncating open of %s" % describe(o)
    if f.id == S.m["removeOldFiles"].id and k == "remove":
        a = n.get("args", [])
        v = deref_local(f, a[0]) if a else None
        vv = skip_copies(v)
        elem_obj = None
        if is_call(vv, ("first", "front", "constFirst", "takeFirst", "last", "back", "constLast", "takeLast", "at", "value", "operator[]")):
            elem_obj = vv.get("obj") if vv.get("ck") == "member" else (vv.get("args") or [None])[0]
        elif isinstance(vv, dict) and vv.get("k") == "call" and vv.get("op") in ("[]", "*") and vv.get("args"):
            elem_obj = vv["args"][0]
        elif isinstance(vv, dict) and vv.get("k") == "ref":
            # range-for variable over the candidate list
            for l in find_loops(f):
                if l.get("k") == "rangefor" and l.get("var", {}).get("decl") == vv.get("decl"):
                    elem_obj = l.get("range")
        if elem_obj is not None and iterator_from_begin(f, elem_obj) is not None:
            elem_obj = iterator_from_begin(f, elem_obj)       # *it of a front-to-back walk over the list
        if elem_obj is not None:
            lst = container_origin(f, skip_copies(elem_obj))
            lst = deref_local(f, lst)
            if isinstance(skip_copies(lst), dict) and skip_copies(lst).get("k") == "call" and skip_copies(lst).get("fn") == S.m["findRotatedFiles"].id:
                return True, "an element of findRotatedFiles()"
        return False, "remove(%s)" % describe(v)
    return False, "%s in %s is not on the allow-list" % (k, short)
