"""C15 — category rules = ordered Qt-style rules (DESIGN.md section 3, C15)."""
from engine.util import *
from engine.facts import strip_tmpl

LEVEL = "other"
MIN_OBLIGATIONS = 18
TECHNIQUE = "def-use history of the rule text (escape -> wildcard -> anchor), CFG rules on the evaluation loop, truth-table evaluation of the rule predicate, writer/reader table agreement (rule regex groups vs stringToQtMsgType keys); evaluation by cases (engine/conc.py) of the type condition over suffix x message type x match through parseRules' stores and Rule::matches; prefix-and-suffix short-cut rule (needs a length test); type-suffix vocabulary rule; exact end anchor and dot-matches-everything of the category pattern; edits of the category text around the escape; rule text cut before parsing; engine failure read as no-match (open finding)"
LEVEL_TEXT = ("Decides the structural clauses of ordered rule evaluation for all rule lists: text flows escape -> '\\\\*'->'.*' -> '^..$'; filter() starts from pass, visits every rule forward "
              "with no early exit and lets each match overwrite the verdict; a rule matches iff regex match AND (untyped OR type equal) — all 8 truth-table rows; the capture groups "
              "of the line grammar agree with how they are consumed; ';' and newline separate rules and a malformed line only skips itself. Verdict equality over all strings is not decided.")
LEVEL_NOTE = "trusts QRegularExpression (escape/match) and QString::split/replace semantics; the concrete verdict for a given rule list and category is run-time"
DESIGN_REF = "DESIGN.md section 3, C15"
EXPLANATION = ("Static rules over CategoryFilter's constructor, parseRules(), Rule::matches() and filter(): ordered history of the local holding the category text, "
               "regex-literal group table vs consumers (captured(1..3), stringToQtMsgType key table), CFG must-continue/overwrite rules in both loops, exhaustive truth table of matches().")
TRUSTED = ["QRegularExpression::escape escapes every character outside [A-Za-z0-9_], so '*' becomes '\\\\*'", "QString::split(sep, SkipEmptyParts) yields the non-empty pieces in order"]
ASSUMPTIONS = []
NOT_DECIDED = ["the verdict for concrete rule lists x categories (needs regex matching at run time)", "whitespace-only and other exotic line contents beyond the grammar literal"]

CF = "QtLogger::CategoryFilter"
LM = "QtLogger::LogMessage"


def run(ck):
    F = ck.facts
    # the verdict is a function of (rules, category text, type): nothing may identify a category by the address of its name (a memo keyed by the pointer
    # returns the verdict of whatever name lived at that address before)
    from rules.c03 import no_pointer_identity
    no_pointer_identity(ck, "C15-O9", scope=("CategoryFilter",))
    from rules.c19 import share_ini_obligation
    share_ini_obligation(ck, "C15-O8", "ini|text|filter_rules", "configure(settings): the value of filter_rules is the rule list the CategoryFilter is built from, character for character (a ':' belongs to a category name)")
    ck.rule("C15-O1", "category text of a rule: captured -> QRegularExpression::escape -> replace('\\\\*', '.*') -> '^' + text + '$', in this order and nothing else")
    ck.rule("C15-O2", "filter(): verdict starts true; every rule is visited in list order with no break/return; a matching rule overwrites the verdict with its own; the verdict is returned")
    ck.rule("C15-O3", "Rule::matches == regex.match(category).hasMatch() && (!typeMatch || type == messageType) on all 8 truth-table rows; filter passes (category, type)")
    ck.rule("C15-O4", "line grammar anchored; group 1 category, group 2 type suffix within the keys of stringToQtMsgType, group 3 true|false; consumers use the matching group numbers")
    ck.rule("C15-O5", "';' is turned into a newline before splitting on newline with empty parts skipped; a non-matching line continues with the next line")
    pr = F.fn(CF + "::parseRules")
    ct = F.fn(CF + "::CategoryFilter", nparams=1, sig_contains="const QString &")
    fl = F.fn(CF + "::filter")
    mt = F.fn(CF + "::Rule::matches")
    ck.touch(pr, ct, fl, mt)
    shortcut_matching(ck, mt)
    suffix_vocabulary(ck, pr)
    parse_rules(ck, pr, ct)
    evaluate(ck, fl, mt)
    type_table(ck, pr, mt)


def parse_rules(ck, pr, ct):
    F = ck.facts
    g = Graph(pr)
    # --- the line grammar literal
    regs = [n for n in pr.find(lambda n: n.get("k") == "construct" and n.get("class") == "QRegularExpression") if n.get("args") and const_str(n["args"][0]) is not None]
    ck.require(len(regs) == 1, "expected one literal QRegularExpression (the line grammar) in parseRules, found %d" % len(regs))
    lit = const_str(regs[0]["args"][0])
    groups = regex_groups(lit)
    anchored = lit.startswith("^") and lit.endswith("$") and not lit.endswith("\\$")
    ck.ob("C15-O4", sitestr(pr, regs[0]), anchored, "line grammar %r is anchored at both ends" % lit if anchored else "line grammar %r is not anchored" % lit, key="parseRules|grammar-anchors")
    ck.require(len(groups) == 3, "line grammar has %d capture groups (3 expected)" % len(groups))
    keys = {const_str(k) for k, v in initlist_pairs((F.fn("QtLogger::stringToQtMsgType").find(lambda n: n.get("k") == "decl") or [{}])[0].get("vars", [{}])[0].get("init"))}
    ck.require(len(keys) >= 5, "key table of stringToQtMsgType not found")
    suffixes = set(groups[1][0].split("|"))
    ok = suffixes <= keys and {"debug", "info", "warning", "critical"} <= suffixes
    ck.ob("C15-O4", sitestr(pr, regs[0]), ok, "type suffixes %s are all keys of stringToQtMsgType %s" % (sorted(suffixes), sorted(keys)) if ok else
          "type suffixes %s vs stringToQtMsgType keys %s / documented .debug .info .warning .critical" % (sorted(suffixes), sorted(keys)), key="parseRules|suffix-table")
    # the suffix group must be introduced by a literal dot and be optional
    pre = lit[:groups[1][1]]
    okdot = pre.endswith("(?:\\.") and lit[groups[1][1] + len(groups[1][0]) + 2:].startswith(")?")
    ck.ob("C15-O4", sitestr(pr, regs[0]), okdot, "the type suffix is an optional '.<type>'" if okdot else "the type suffix is not an optional literal-dot group", key="parseRules|suffix-optional")
    vals = set(groups[2][0].split("|"))
    ck.ob("C15-O4", sitestr(pr, regs[0]), vals == {"true", "false"}, "value group is true|false", key="parseRules|value-group")
    opts = regs[0]["args"][1:]
    ck.ob("C15-O4", sitestr(pr, regs[0]), all(o.get("k") == "defaultarg" for o in opts), "default pattern options (case-sensitive)" if all(o.get("k") == "defaultarg" for o in opts) else
          "line grammar uses non-default pattern options", key="parseRules|grammar-options")
    # --- the loop: lines = rules.split('\n', SkipEmptyParts)
    loops = [l for l in find_loops(pr) if l.get("k") == "rangefor"]
    ck.require(len(loops) == 1, "parseRules no longer has exactly one range-for loop")
    loop = loops[0]
    rng = skip_copies(loop.get("range"))
    src = None
    if rng.get("k") == "ref" and rng.get("dk") == "local":
        _, var = local_var(pr, rng["decl"])
        src = skip_copies(var.get("init")) if var else None
    else:
        src = rng
    oksplit = is_call(src, "QString::split") and is_ref_to(skip_copies(src).get("obj"), pr.params[0]["decl"])
    if oksplit:
        a = src["args"]
        sep = const_str(a[0]) if a else None
        if sep is None and a:
            ci = const_int(a[0])
            sep = chr(ci) if ci is not None else None
        skipempty = len(a) > 1 and const_int(a[1]) == 1
        ck.ob("C15-O5", sitestr(pr, src), sep == "\n", "rules are split on newline" if sep == "\n" else "rules are split on %r" % sep, key="parseRules|split-separator")
        ck.ob("C15-O5", sitestr(pr, src), skipempty, "empty parts are skipped" if skipempty else "empty parts are kept", key="parseRules|split-behavior")
    else:
        ck.ob("C15-O5", sitestr(pr, loop), None, "the loop does not iterate rules.split(...)")
    # --- constructor: ';' -> '\n' on what is passed to parseRules
    gc = Graph(ct)
    calls = ct.calls(CF + "::parseRules")
    ck.require(len(calls) == 1, "constructor does not call parseRules exactly once")
    arg = skip_copies(calls[0]["args"][0])
    cuts = []
    if arg.get("k") == "ref" and arg.get("dk") == "local":
        for r_ in refs_to(ct, arg["decl"]):
            asg_, rhs_ = assignment_target(ct, r_)
            if asg_ is not None and isinstance(rhs_, dict) and any(is_call(x, ("QString::mid", "QString::left", "QString::right", "QString::chopped", "QString::section", "QString::sliced")) and
                                                                   is_ref_to(skip_copies(x.get("obj") or {}), arg["decl"]) for x in walk(rhs_)):
                cuts.append((asg_, rhs_))
        cuts += [(c_, c_) for c_ in ct.calls() if c_.get("ck") == "member" and is_ref_to(skip_copies(c_.get("obj") or {}), arg["decl"]) and name_is(c_.get("callee"), ("truncate", "chop", "remove", "resize"))]
    if cuts:
        # part of the rule text is thrown away before it is parsed ("nothing in front of the last unconditional rule can decide"). That is only right when
        # the line that justifies the cut is one the parser accepts: the pre-scan must use the parser's own grammar for the value and the line end
        pats = [const_str(a_) for c_ in ct.all_nodes() if c_.get("k") == "construct" and strip_tmpl(c_.get("class") or "") == "QRegularExpression" for a_ in c_.get("args", [])[:1] if const_str(a_) is not None]
        for g_ in F.globals.values():
            if isinstance(g_, dict) and g_.get("staticlocal") and isinstance(g_.get("init"), dict) and "categoryfilter" in (g_.get("file") or "") and "QRegularExpression" in (g_.get("type") or ""):
                pats += [const_str(x) for x in walk(g_["init"]) if const_str(x) is not None]
        full = [p_ for p_ in pats if p_ and "(true|false)" in p_ and (p_.rstrip().endswith("$") or p_.rstrip().endswith("\\z"))]
        partial = [p_ for p_ in pats if p_ and p_ not in full and p_ != lit]
        ck.ob("C15-O5", sitestr(ct, cuts[0][0]), False if (partial and not full) else None,
              "the constructor cuts the rule text (%s) at a line found with %r, which does not check the value or the end of the line as the parser does: a malformed line that merely starts like that "
              "(\"*=on\") is ignored by the parser, but every rule in front of it has already been thrown away" % (describe(cuts[0][1])[:40], partial[0]) if (partial and not full) else
              "the constructor cuts the rule text (%s) before parsing it" % describe(cuts[0][1])[:40], key="CategoryFilter|text-cut")
    elif arg.get("k") == "ref" and arg.get("dk") == "local":
        hist = var_history(ct, gc, arg["decl"])
        kinds = [(e[0], describe(e[1])[:60]) for e in hist]
        init_ok = hist and hist[0][0] == "init" and is_ref_to(skip_copies(hist[0][2]), ct.params[0]["decl"])
        reps = [e for e in hist if e[0] == "call" and is_call(e[1], "QString::replace")]
        okrep = len(reps) == 1 and const_str(reps[0][1]["args"][0]) == ";" and const_str(reps[0][1]["args"][1]) == "\n"
        others = [e for e in hist if e[0] in ("assign", "call") and e not in reps]
        before = okrep and hist.index(reps[0]) < [i for i, e in enumerate(hist) if e[0] == "use"][-1]
        ck.ob("C15-O5", sitestr(ct), bool(init_ok and okrep and before and not others), "the rule text is copied, ';' replaced by newline, then parsed" if (init_ok and okrep and before and not others) else
              "constructor prepares the rule text as %s" % kinds, key="CategoryFilter|semicolon")
    else:
        ck.ob("C15-O5", sitestr(ct), False if is_ref_to(arg, ct.params[0]["decl"]) else None, "the constructor passes %s to parseRules without turning ';' into newlines" % describe(arg), key="CategoryFilter|semicolon")
    # --- malformed line: continue, never leave the loop / function
    cond = g.site_of(loop["desugar"]["cond"])
    hm = [n for n in pr.calls("QRegularExpressionMatch::hasMatch")]
    ck.require(len(hm) == 1, "parseRules tests hasMatch() %d times" % len(hm))
    is_hm = value_pred(pr, hm[0])
    keep_bad = g.projector(atom_eq(is_hm, False))
    keep_good = g.projector(atom_eq(is_hm, True))
    hs = g.site_of(hm[0])
    apps = [n for n in pr.calls() if n.get("ck") == "member" and name_is(n.get("callee"), ("append", "push_back")) and is_this_field(n.get("obj"), CF + "::m_rules")]
    ck.require(apps, "parseRules no longer appends to m_rules")
    asites = set(g.sites_of_nodes(apps))
    a = g.postdominated(hs, {cond}, keep=keep_bad)
    b = not (asites & g.reach([hs], blocked={cond}, keep=keep_bad, include_start=False))
    ck.ob("C15-O5", sitestr(pr, hm[0]), a and b, "a line that does not match the grammar is skipped and parsing continues with the next line" if (a and b) else
          "a malformed line %s" % ("ends the parsing" if not a else "still produces a rule"), key="parseRules|malformed-line")
    c = g.postdominated(hs, asites, keep=keep_good) and g.postdominated(hs, {cond}, keep=keep_good)
    ck.ob("C15-O5", sitestr(pr, hm[0]), c, "a well-formed line appends one rule (at the end, preserving order) and parsing continues" if c else "a well-formed line does not always append a rule", key="parseRules|wellformed-line")
    for n in apps:
        if name_is(n.get("callee"), ("prepend", "push_front", "insert")):
            ck.ob("C15-O2", sitestr(pr, n), False, "rules are not appended in list order", key="parseRules|order")
    # --- O1: history of the category text
    rule_assigns = {}
    for n in pr.find(lambda n: (n.get("k") == "binop" and n.get("op") == "=") or (n.get("k") == "call" and n.get("op") == "=")):
        lhs = n.get("lhs") if n.get("k") == "binop" else n["args"][0]
        rhs = n.get("rhs") if n.get("k") == "binop" else n["args"][1]
        l = skip_copies(lhs)
        if l.get("k") == "member" and l.get("dk") == "field" and l.get("name", "").startswith(CF + "::Rule::"):
            rule_assigns.setdefault(l["name"].split("::")[-1], []).append((n, rhs))
    typed_fields = all(rule_assigns.get(fld) for fld in ("type", "typeMatch"))
    for fld in ("category", "enabled") + (("type", "typeMatch") if typed_fields else ()):
        ck.require(len(rule_assigns.get(fld, [])) == 1, "Rule::%s is assigned %d times in parseRules" % (fld, len(rule_assigns.get(fld, []))))
    cat_asg, cat_rhs = rule_assigns["category"][0]
    rx = skip_copies(cat_rhs)
    for _ in range(6):
        if rx.get("k") == "cast":
            rx = skip_copies(rx.get("e"))
        elif rx.get("k") == "call" and rx.get("inl_value") is not None and rx["inl_value"] in pr.nodes:
            rx = skip_copies(pr.nodes[rx["inl_value"]])       # a spliced helper (wildcardToRegExp(text)): the expression it returns
        elif rx.get("k") == "construct" and rx.get("class") == "QRegularExpression" and len([a for a in rx.get("args", []) if a.get("k") != "defaultarg"]) == 1 and \
                skip_copies(rx["args"][0]).get("k") in ("call", "construct") and (skip_copies(rx["args"][0]).get("inl_value") is not None or skip_copies(rx["args"][0]).get("class") == "QRegularExpression"):
            rx = skip_copies(rx["args"][0])                   # copy / move construction from that
        else:
            break
    ck.require(rx.get("k") == "construct" and rx.get("class") == "QRegularExpression", "Rule::category is not assigned a QRegularExpression")
    leaves = concat_leaves(rx["args"][0])
    strs = [const_str(x) for x in leaves]
    okanch = len(leaves) == 3 and strs[0] in ("^", "\\A") and strs[2] == "\\z"
    loose = len(leaves) == 3 and strs[0] in ("^", "\\A") and strs[2] in ("$", "\\Z")
    ck.ob("C15-O1", sitestr(pr, cat_asg), okanch, "category pattern is '^' + text + '\\z' (the whole category and nothing else)" if okanch else
          "category pattern ends in %r, which also matches in front of a final line break: rule 'app.core=false' decides the category \"app.core\\n\"" % strs[2] if loose else
          "category pattern is built as %s" % [describe(x) for x in leaves], key="parseRules|category-anchors")
    # options: case-sensitive, and the '.' of the translated wildcard must match every character (a category may contain a line break)
    opts = [o for o in rx["args"][1:] if o.get("k") != "defaultarg"]
    optnames = set()
    for o in opts:
        for x in walk(o):
            if x.get("k") == "ref" and "Option" in (x.get("name") or ""):
                optnames.add(x["name"].split("::")[-1])
    okopt = optnames == {"DotMatchesEverythingOption"}
    ck.ob("C15-O1", sitestr(pr, cat_asg), okopt if (okopt or not optnames or "CaseInsensitiveOption" in optnames or optnames - {"DotMatchesEverythingOption", "CaseInsensitiveOption"} == set()) else None,
          "category pattern options: case-sensitive, '.' matches every character (a wildcard spans a line break inside a category name)" if okopt else
          "category pattern options %s: %s" % (sorted(optnames) or "none", "'*' (translated to '.*') does not match a line break inside a category name" if "DotMatchesEverythingOption" not in optnames else "matching is not case-sensitive"),
          key="parseRules|category-options")
    mids = [x for x in leaves if const_str(x) is None]
    if len(mids) != 1 or skip_copies(mids[0]).get("k") != "ref":
        ck.ob("C15-O1", sitestr(pr, cat_asg), None, "category text is not a single local variable")
        return
    vdecl = skip_copies(mids[0])["decl"]
    # edits of the category text other than escape + the wildcard translation: dropping characters of it, or adding regular-expression syntax to the
    # escaped text, makes the rule match categories it does not spell (decided before the ordering analysis, which gives up on branches)
    edits = []
    for c_ in pr.calls():
        if c_.get("ck") in ("member", "operator") and ((isinstance(c_.get("obj"), dict) and is_ref_to(skip_copies(c_["obj"]), vdecl)) or (c_.get("ck") == "operator" and c_.get("args") and is_ref_to(skip_copies(c_["args"][0]), vdecl))):
            short_ = strip_tmpl(c_.get("callee") or "").split("::")[-1]
            if short_ in ("chop", "truncate", "remove", "resize"):
                edits.append((c_, "drops characters of the category text (%s)" % describe(c_)[:40]))
            elif short_ in ("append", "prepend", "insert", "operator+=", "push_back"):
                lits_ = [const_str(a_) for a_ in c_.get("args", []) if const_str(a_) is not None]
                if any(l_ and any(ch in l_ for ch in "()[]?*+|.^$\\") for l_ in lits_):
                    edits.append((c_, "adds regular-expression syntax %r to the escaped text" % [l_ for l_ in lits_ if l_][0]))
    if edits:
        ck.ob("C15-O1", sitestr(pr, edits[0][0]), False, "parseRules %s: the pattern of the rule is no longer the escaped category with '*' -> '.*', so a rule decides categories its text does not match "
              "(`net.*=false` then also drops the category `net`)" % "; ".join(e_[1] for e_ in edits[:2]), key="parseRules|category-edited")
        return
    hist = var_history(pr, g, vdecl)
    upto = []
    for e in hist:
        if e[0] == "use" and e[1]["id"] == skip_copies(mids[0])["id"]:
            break
        upto.append(e)
    labels = []
    for e in upto:
        if e[0] == "init":
            i = skip_copies(e[2])
            if is_call(i, "QRegularExpression::escape") and i.get("args") and is_call(deref_local(pr, i["args"][0]), "QRegularExpressionMatch::captured"):
                inner_ = skip_copies(deref_local(pr, i["args"][0]))
                labels.append("captured(%s)" % const_int(inner_["args"][0]))
                labels.append("escape")
            else:
                labels.append("captured(%s)" % const_int(i["args"][0]) if is_call(i, "QRegularExpressionMatch::captured") and i.get("args") else "init:" + describe(i))
        elif e[0] == "assign":
            r = skip_copies(e[2])
            if is_call(r, "QRegularExpression::escape") and r.get("args") and is_ref_to(r["args"][0], vdecl):
                labels.append("escape")
            else:
                labels.append("assign:" + describe(r))
        elif e[0] == "call":
            c = e[1]
            if is_call(c, "QString::replace") and len(c.get("args", [])) >= 2:
                labels.append("replace(%r,%r)" % (const_str(c["args"][0]), const_str(c["args"][1])))
            else:
                labels.append("call:" + describe(c))
        else:
            labels.append("use")
    want = ["captured(1)", "escape", "replace('\\\\*','.*')"]
    ok = labels == want
    if ok:
        ck.ob("C15-O1", sitestr(pr, cat_asg), True, "category text history: %s" % " -> ".join(labels))
    else:
        known = all(l.startswith(("captured(", "escape", "replace(", "use")) for l in labels)
        ck.ob("C15-O1", sitestr(pr, cat_asg), False if known else None, "category text history is %s, expected %s" % (" -> ".join(labels), " -> ".join(want)), key="parseRules|category-history")
    # --- O4 consumers
    def captured_idx(n, depth=0):
        for x in walk(n):
            if is_call(x, "QRegularExpressionMatch::captured") and x.get("args"):
                return const_int(x["args"][0])
            if x.get("k") == "ref" and x.get("dk") == "local" and depth < 3:
                y = deref_local(pr, x)
                if y.get("id") != x.get("id"):
                    r_ = captured_idx(y, depth + 1)
                    if r_ is not None:
                        return r_
        return None
    if typed_fields:
        t_asg, t_rhs = rule_assigns["type"][0]
        okt = is_call(deref_local(pr, t_rhs), "QtLogger::stringToQtMsgType") and captured_idx(t_rhs) == 2
        ck.ob("C15-O4", sitestr(pr, t_asg), okt, "rule type = stringToQtMsgType(captured(2))" if okt else "rule type = %s" % describe(t_rhs), key="parseRules|type-consumer")
        tm_asg, tm_rhs = rule_assigns["typeMatch"][0]
        tm_rhs = deref_local(pr, tm_rhs)
        isempty = [x for x in walk(tm_rhs) if is_call(x, ("QString::isEmpty", "QString::isNull"))]
        v = None
        if len(isempty) == 1 and captured_idx(tm_rhs) == 2:
            v = [eval_cond(tm_rhs, atom_eq(lambda n, i=isempty[0]: n.get("id") == i["id"], e)) for e in (True, False)]
        ck.ob("C15-O4", sitestr(pr, tm_asg), v == [False, True] if v is not None and None not in v else None, "rule is typed iff the suffix group captured something" if v == [False, True] else "typeMatch = %s" % describe(tm_rhs),
              key="parseRules|typematch-consumer")
    # (another representation of the type condition - a bit mask, a set - is decided by type_table() alone)
    e_asg, e_rhs = rule_assigns["enabled"][0]
    er = skip_copies(e_rhs)
    oke = er.get("k") == "call" and er.get("op") == "==" and captured_idx(er) == 3 and "true" in [const_str(a) for a in er.get("args", [])]
    neg = er.get("k") == "call" and er.get("op") in ("==", "!=") and captured_idx(er) == 3 and (("false" in [const_str(a) for a in er.get("args", [])] and er.get("op") == "==") or ("true" in [const_str(a) for a in er.get("args", [])] and er.get("op") == "!="))
    wrong_group = er.get("k") == "call" and er.get("op") in ("==", "!=") and captured_idx(er) not in (None, 3)
    ck.ob("C15-O4", sitestr(pr, e_asg), True if oke else False if (neg or wrong_group) else None, "rule verdict = (captured(3) == \"true\")" if oke else "rule verdict = %s" % describe(er), key="parseRules|enabled-consumer")
    # each rule object is fresh
    news = [n for n in pr.calls() if name_is(strip_tmpl(n.get("callee") or ""), "QSharedPointer::create")]
    ck.ob("C15-O4", sitestr(pr), len(news) == 1 and g.in_cycle(g.site_of(news[0])), "a fresh Rule object per line", key="parseRules|fresh-rule")


def evaluate(ck, fl, mt):
    F = ck.facts
    g = Graph(fl)
    loops = [l for l in find_loops(fl)]
    if len(loops) == 1 and loops[0].get("k") == "for" and reverse_scan(ck, fl, g, loops[0], mt):
        truth_table(ck, mt)
        return
    ck.require(len(loops) == 1 and loops[0].get("k") == "rangefor", "filter() no longer has exactly one range-for loop")
    loop = loops[0]
    rng = skip_copies(loop.get("range"))
    if is_call(rng, ("std::as_const", "qAsConst")) and rng.get("args"):
        rng = skip_copies(rng["args"][0])
    okr = is_this_field(rng, CF + "::m_rules")
    ck.ob("C15-O2", sitestr(fl, loop), okr if okr else None, "rules are visited in list order (range-for over m_rules)" if okr else "loop range %s not recognised" % describe(rng), key="filter|loop-range")
    lv = decl_of_loopvar(loop)
    mcalls = [n for n in fl.calls(CF + "::Rule::matches")]
    ck.require(len(mcalls) == 1, "filter() calls Rule::matches %d times" % len(mcalls))
    mc = mcalls[0]
    on_elem = is_ref_to(unwrap_ptr(mc.get("obj")), lv)
    ck.ob("C15-O2", sitestr(fl, mc), on_elem, "matches() is evaluated on the loop element", key="filter|matches-object")
    # the arguments may be hoisted into single-assignment locals in front of the loop (`const QString category(lmsg.category())`)
    arg0 = deref_local(fl, mc["args"][0])
    a0 = [x for x in walk(arg0) if is_call(x, LM + "::category") and obj_is_param(x, fl, 0)]
    a1 = skip_copies(deref_local(fl, mc["args"][1]))
    # the category text is decoded as UTF-8 (what QString(const char *) does, and what the rule text was): another decoding compares other characters
    other_decoding = [x for x in walk(arg0) if (x.get("k") == "call" and strip_tmpl(x.get("callee") or "").split("::")[-1] in ("fromLatin1", "fromLocal8Bit", "fromAscii", "fromRawData", "fromUcs4", "fromUtf16"))
                      or (x.get("k") == "construct" and (x.get("class") or "") in ("QLatin1String", "QLatin1StringView"))]
    if other_decoding:
        ck.ob("C15-O3", sitestr(fl, other_decoding[0]), False, "the category is decoded with %s before it is matched: a category name outside ASCII no longer equals a rule that spells it (the rule text, like "
              "QString(const char *), is UTF-8)" % describe(other_decoding[0])[:60], key="filter|category-decoding")
    okargs = bool(a0) and is_call(a1, LM + "::type") and obj_is_param(a1, fl, 0) and not lossy_wrappers(arg0)
    unknown_args = not okargs and not lossy_wrappers(arg0) and any(skip_copies(a_).get("k") == "ref" and skip_copies(a_).get("dk") == "local" for a_ in mc["args"][:2])
    ck.ob("C15-O3", sitestr(fl, mc), True if okargs else (None if unknown_args else False), "matches(lmsg.category(), lmsg.type())" if okargs else "matches(%s)" % ", ".join(describe(a) for a in mc["args"]), key="filter|matches-args")
    # verdict variable
    rs = returns(fl)
    ck.require(len(rs) >= 1, "filter() has no return")
    rvars = set()
    for r in rs:
        e = skip_copies(r.get("e"))
        if e.get("k") == "ref" and e.get("dk") == "local":
            rvars.add(e["decl"])
        else:
            in_loop = any(a.get("id") == loop["id"] for a in fl.ancestors(r))
            ck.ob("C15-O2", sitestr(fl, r), False if in_loop else None, "filter() returns %s %s" % (describe(e), "from inside the loop (first match decides)" if in_loop else ""), key="filter|early-return")
            return
    ck.require(len(rvars) == 1, "filter() returns different variables")
    vd = rvars.pop()
    dn, var = local_var(fl, vd)
    init = const_int(var.get("init")) if var else None
    ck.ob("C15-O2", sitestr(fl, dn), init == 1, "the verdict starts as true (no rule matches -> pass)" if init == 1 else "the verdict starts as %s" % describe(var.get("init")), key="filter|default-verdict")
    cond = g.site_of(loop["desugar"]["cond"])
    ms = g.site_of(mc)
    is_m = value_pred(fl, mc)
    keep_t = g.projector(atom_eq(is_m, True))
    keep_f = g.projector(atom_eq(is_m, False))
    writes = []
    for r in refs_to(fl, vd):
        asg, rhs = assignment_target(fl, r)
        if asg is not None:
            writes.append((asg, rhs))
        elif write_kind(fl, r):
            ck.ob("C15-O2", sitestr(fl, r), None, "verdict variable modified by an unrecognised construct")
            return
    wsites = set(g.sites_of_nodes([w[0] for w in writes]))
    for asg, rhs in writes:
        r = skip_copies(rhs)
        okw = r.get("k") == "member" and r.get("name") == CF + "::Rule::enabled" and is_ref_to(unwrap_ptr(r.get("base")), lv)
        ck.ob("C15-O2", sitestr(fl, asg), okw, "the verdict is overwritten with the matching rule's own verdict" if okw else "the verdict is set to %s" % describe(r), key="filter|verdict-source")
    a = bool(wsites) and g.postdominated(ms, wsites, keep=keep_t)
    ck.ob("C15-O2", sitestr(fl, mc), a, "a matching rule always overwrites the verdict (last match wins)" if a else "a matching rule does not always overwrite the verdict", key="filter|match-no-overwrite")
    b = not (wsites & g.reach([ms], blocked={cond}, keep=keep_f, include_start=False))
    ck.ob("C15-O2", sitestr(fl, mc), b, "a non-matching rule leaves the verdict alone" if b else "a non-matching rule changes the verdict", key="filter|nomatch-overwrites")
    for val, keep in ((True, keep_t), (False, keep_f)):
        c = g.postdominated(ms, {cond}, keep=keep)
        ck.ob("C15-O2", sitestr(fl, mc), c, "after a %s rule the next rule is examined on every path" % ("matching" if val else "non-matching") if c else
              "after a %s rule the loop can be left early (no longer 'last match wins')" % ("matching" if val else "non-matching"), key="filter|early-exit-%s" % val)
    truth_table(ck, mt)


def reverse_scan(ck, fl, g, loop, mt):
    """`last match wins` written as a scan from the back that returns the first matching rule's verdict:
         for (it = m_rules.crbegin(); it != m_rules.crend(); ++it) if ((*it)->matches(c, t)) return (*it)->enabled;  return true;
    returns True if the idiom was recognised (obligations emitted), False to fall back to the forward form"""
    init = loop.get("init")
    if not (isinstance(init, dict) and init.get("k") == "decl" and len(init.get("vars", [])) == 1):
        return False
    itv = init["vars"][0]
    start = skip_copies(itv.get("init"))
    cond = skip_copies(loop.get("cond"))
    inc = skip_copies(loop.get("inc"))
    if not (is_call(start, ("crbegin", "rbegin")) and is_this_field(skip_copies(start).get("obj"), CF + "::m_rules")):
        return False
    oke = isinstance(cond, dict) and cond.get("op") == "!=" and any(is_call(a, ("crend", "rend")) and is_this_field(skip_copies(a).get("obj"), CF + "::m_rules") for a in (cond.get("args") or [cond.get("lhs"), cond.get("rhs")]) if isinstance(a, dict))
    oki = isinstance(inc, dict) and inc.get("op") == "++"
    ck.ob("C15-O2", sitestr(fl, loop), bool(oke and oki), "rules are scanned from the last to the first (crbegin..crend, ++)" if (oke and oki) else "reverse scan of m_rules not complete: end test=%s, step=%s" % (oke, oki), key="filter|loop-range")
    mcalls = [n for n in fl.calls() if n.get("fn") == mt.id]
    ck.require(len(mcalls) == 1, "filter() calls Rule::matches %d times" % len(mcalls))
    mc = mcalls[0]
    elem_of = lambda x: unwrap_ptr(deref_local(fl, unwrap_ptr(x)))   # *it, or an alias `const auto &rule = *it`
    on_elem = is_ref_to(elem_of(mc.get("obj")), itv["decl"])
    ck.ob("C15-O2", sitestr(fl, mc), on_elem, "matches() is evaluated on the element the iterator points to", key="filter|matches-object")
    a0 = [x for x in walk(deref_local(fl, mc["args"][0])) if is_call(x, LM + "::category") and obj_is_param(x, fl, 0)]
    a1 = skip_copies(deref_local(fl, mc["args"][1]))
    okargs = bool(a0) and is_call(a1, LM + "::type") and obj_is_param(a1, fl, 0) and not lossy_wrappers(deref_local(fl, mc["args"][0]))
    ck.ob("C15-O3", sitestr(fl, mc), okargs, "matches(lmsg.category(), lmsg.type())" if okargs else "matches(%s)" % ", ".join(describe(a) for a in mc["args"]), key="filter|matches-args")
    ms = g.site_of(mc)
    is_m = value_pred(fl, mc)
    keep_t, keep_f = g.projector(atom_eq(is_m, True)), g.projector(atom_eq(is_m, False))
    condsite = g.site_of(loop["cond"])
    inloop = [r for r in returns(fl) if any(a.get("id") == loop["id"] for a in fl.ancestors(r))]
    after = [r for r in returns(fl) if r not in inloop]
    okin = len(inloop) == 1 and g.postdominated(ms, {g.site_of(inloop[0])}, keep=keep_t) and g.site_of(inloop[0]) not in g.reach([ms], blocked={condsite}, keep=keep_f, include_start=False)
    ck.ob("C15-O2", sitestr(fl, mc), okin, "the first match from the back returns immediately (= the last matching rule decides); a non-matching rule does not" if okin else
          "the scan does not return exactly on a match", key="filter|match-no-overwrite")
    if inloop:
        r = skip_copies(inloop[0].get("e"))
        okw = r.get("k") == "member" and r.get("name") == CF + "::Rule::enabled" and is_ref_to(elem_of(r.get("base")), itv["decl"])
        ck.ob("C15-O2", sitestr(fl, inloop[0]), okw, "the verdict is the matching rule's own verdict" if okw else "the verdict returned on a match is %s" % describe(r), key="filter|verdict-source")
    c = g.postdominated(ms, {condsite}, keep=keep_f)
    ck.ob("C15-O2", sitestr(fl, mc), c, "after a non-matching rule the next (earlier) rule is examined on every path" if c else "after a non-matching rule the scan can stop", key="filter|early-exit-False")
    okd = len(after) == 1 and const_int(after[0].get("e")) == 1
    ck.ob("C15-O2", sitestr(fl, after[0]) if after else sitestr(fl), okd, "no rule matches -> pass" if okd else "default verdict is %s" % [describe(x.get("e")) for x in after], key="filter|default-verdict")
    return True


def truth_table(ck, mt):
    F = ck.facts
    # --- O3 truth table of matches()
    rs = returns(mt)
    ck.require(len(rs) == 1, "Rule::matches has %d returns" % len(rs))
    e = rs[0].get("e")
    R = [x for x in walk(e) if is_call(x, "QRegularExpressionMatch::hasMatch")]
    if len(R) != 1:
        ck.ob("C15-O3", sitestr(mt), None, "Rule::matches does not use exactly one hasMatch()")
        return
    m = skip_copies(R[0].get("obj"))
    okm = is_call(m, "QRegularExpression::match") and is_this_field(m.get("obj"), CF + "::Rule::category") and is_ref_to(m["args"][0], mt.params[0]["decl"]) and all(x.get("k") == "defaultarg" for x in m["args"][1:])
    ck.ob("C15-O3", sitestr(mt, m), okm, "the category pattern is matched against the category argument with default options" if okm else "unexpected match call %s" % describe(m), key="Rule::matches|match-call")
    # --- O10: the engine can FAIL (PCRE's match limit on a chain of wildcards against a long category with repeated characters; a pattern over the
    # 64K limit that does not compile): hasMatch() is false then, and the rule is taken not to match although its text does
    ck.rule("C15-O10", "a failure of the matching engine is not read as 'the rule does not match': the category match is not done by a backtracking engine, or its error state (isValid / match error) decides separately")
    checks = [x for f_ in (mt, F.fn(CF + "::parseRules"), F.fn(CF + "::filter")) for x in f_.calls() if strip_tmpl(x.get("callee") or "") in
              ("QRegularExpression::isValid", "QRegularExpressionMatch::isValid", "QRegularExpression::errorString", "QRegularExpression::patternErrorOffset")]
    ck.ob("C15-O10", sitestr(mt, R[0]), bool(checks) if okm else None,
          "the validity of the pattern / of the match is looked at" if checks else
          "Rule::matches reads QRegularExpressionMatch::hasMatch() of a pattern translated from wildcards ('.*') and nothing looks at the engine's error state: when PCRE gives up "
          "(`*x*x*x*x*x*x*x*x*yz*=false` against xxxxxxxxyz + 40 x) or the pattern does not compile (a 70 000-character rule) the rule 'does not match' and the message passes", key="Rule::matches|engine-failure-is-no-match")
    rec = F.records.get(CF + "::Rule") or {}
    if not {"type", "typeMatch"} <= {f_.get("name") for f_ in rec.get("fields", [])}:
        return    # no (type, typeMatch) pair: the verdict table of type_table() decides the type condition
    bad = []
    unknown = False
    for r in (0, 1):
        for t in (0, 1):
            for eq in (0, 1):
                def leaf(n, r=r, t=t, eq=eq):
                    if n.get("id") == R[0]["id"]:
                        return r
                    if is_this_field(n, CF + "::Rule::typeMatch"):
                        return t
                    if n.get("k") == "binop" and n.get("op") in ("==", "!="):
                        ops = [skip_copies(n.get("lhs")), skip_copies(n.get("rhs"))]
                        if any(is_this_field(o, CF + "::Rule::type") for o in ops) and any(is_ref_to(o, mt.params[1]["decl"]) for o in ops):
                            return eq if n["op"] == "==" else 1 - eq
                    return None
                got = eval_int(e, leaf)
                want = int(bool(r and (not t or eq)))
                if got is None:
                    unknown = True
                elif int(bool(got)) != want:
                    bad.append("regex=%d typed=%d typeEqual=%d -> %d" % (r, t, eq, got))
    if unknown:
        ck.ob("C15-O3", sitestr(mt, rs[0]), None, "Rule::matches is not a boolean function of (regex match, typeMatch, type == messageType): %s" % describe(e))
    else:
        ck.ob("C15-O3", sitestr(mt, rs[0]), not bad, "8/8 truth-table rows agree with match && (!typed || type equal)" if not bad else "wrong rows: %s" % bad, key="Rule::matches|truth-table")


SUFFIX_TYPE = {"debug": "QtDebugMsg", "info": "QtInfoMsg", "warning": "QtWarningMsg", "critical": "QtCriticalMsg"}


def type_table(ck, pr, mt):
    """C15-O3 by cases: for every type suffix the grammar admits (and none) x every message type x (pattern matches or not), the
    rule fields parseRules stores and the verdict Rule::matches computes from them are evaluated on the source (engine/conc.py);
    the verdict must be: pattern matches && (no suffix || suffix names the message type). Independent of how the condition is stored."""
    from engine.conc import Conc, Unknown
    F = ck.facts
    en = {e["name"]: e["value"] for e in F.enums["QtMsgType"]["enumerators"] if e["name"] in ("QtDebugMsg", "QtInfoMsg", "QtWarningMsg", "QtCriticalMsg", "QtFatalMsg")}
    regs = [n for n in pr.find(lambda n: n.get("k") == "construct" and n.get("class") == "QRegularExpression") if n.get("args") and const_str(n["args"][0]) is not None]
    suffixes = sorted(set(regex_groups(const_str(regs[0]["args"][0]))[1][0].split("|")) & set(SUFFIX_TYPE))
    loops = [l for l in find_loops(pr) if l.get("k") == "rangefor"]
    hm_m = [x for x in mt.calls("QRegularExpressionMatch::hasMatch")]
    rows, wrong, unknown = 0, [], []
    for s in [""] + suffixes:
        def leaf_p(n, env, s=s):
            if is_call(n, "QRegularExpressionMatch::captured") and n.get("args"):
                i = const_int(n["args"][0])
                return {1: "some.category", 2: s, 3: "true"}.get(i)
            if is_call(n, "QRegularExpressionMatch::hasMatch"):
                return 1
            return None

        def hook(lhs, v, env):
            if lhs.get("k") == "member" and lhs.get("dk") == "field" and (lhs.get("name") or "").startswith(CF + "::Rule::"):
                env.setdefault("__fields__", {})[lhs["name"]] = v
                return True
            return False
        cp = Conc(F, leaf=leaf_p, tolerant=True, store_hook=hook)
        env = {"__fn__": pr, "__fields__": {}}
        # default member initialisers of Rule
        for fld in (F.records.get(CF + "::Rule") or {}).get("fields", []):
            dv = const_int(fld.get("init")) if isinstance(fld.get("init"), dict) else None
            if dv is not None:
                env["__fields__"][CF + "::Rule::" + fld["name"]] = dv
            elif (fld.get("type") or "").startswith("std::optional<") and not isinstance(fld.get("init"), dict):
                from engine.conc import Opt
                env["__fields__"][CF + "::Rule::" + fld["name"]] = Opt(None)      # a default-constructed optional is empty
        try:
            try:
                cp.exec(loops[0].get("body"), env)
            except Exception as e:
                if type(e).__name__ not in ("_Cont", "_Brk"):
                    raise
        except Unknown as e:
            unknown.append("suffix %r: parseRules: %s" % (s, e))
            continue
        fields = dict(env["__fields__"])
        for mname, mval in sorted(en.items(), key=lambda kv: kv[1]):
            for rx in (0, 1):
                rows += 1
                def leaf_m(n, env, rx=rx):
                    if hm_m and n.get("id") == hm_m[0]["id"]:
                        return rx
                    return None
                cm = Conc(F, leaf=leaf_m, tolerant=True)
                try:
                    got = cm.call_fn(mt, ["some.category", mval], dict(fields))
                except Unknown as e:
                    unknown.append("suffix %r, %s, pattern %s: Rule::matches: %s" % (s, mname, "matches" if rx else "does not match", e))
                    continue
                want = int(bool(rx and (s == "" or en[SUFFIX_TYPE[s]] == mval)))
                if int(bool(got)) != want:
                    wrong.append("%s rule, %s message, pattern %s -> %s" % (("'.%s'" % s) if s else "untyped", mname, "matches" if rx else "does not match", "match" if got else "no match"))
    if wrong:
        ck.ob("C15-O3", sitestr(mt), False, "type condition of a rule is wrong in %d of %d cases: %s" % (len(wrong), rows, "; ".join(wrong[:6])), key="Rule::matches|type-table")
    elif unknown:
        ck.ob("C15-O3", sitestr(mt), None, "type condition of a rule could not be tabulated: %s" % "; ".join(unknown[:3]), key="Rule::matches|type-table")
    else:
        ck.ob("C15-O3", sitestr(mt), True, "%d cases (suffix none/%s x 5 message types x pattern matches or not) evaluated through parseRules' stores and Rule::matches: verdict = match && (untyped || type named by the suffix)"
              % (rows, "/".join(suffixes)), key="Rule::matches|type-table")


def shortcut_matching(ck, mt):
    """C15-O6: a wildcard rule decided without the regular expression.  `text.startsWith(p) && text.endsWith(s)` is what `p*s` means only
    for texts at least |p| + |s| long; for a shorter text the two tests look at overlapping characters (rule `ab*ba`, category `aba`)."""
    ck.rule("C15-O6", "Rule::matches decides through the regular expression; a prefix-and-suffix short cut for single-wildcard rules also requires the category to be at least as long as prefix plus suffix")
    cat = mt.params[0]["decl"] if mt.params else None
    pairs = []
    for n in mt.all_nodes():
        if n.get("k") == "binop" and n.get("op") == "&&":
            parts = []
            stack = [n]
            while stack:
                x = skip_copies(stack.pop())
                if isinstance(x, dict) and x.get("k") == "binop" and x.get("op") == "&&":
                    stack += [x.get("lhs"), x.get("rhs")]
                elif isinstance(x, dict):
                    parts.append(x)
            sw = [x for x in parts if is_call(x, "QString::startsWith") and is_ref_to(skip_copies(x).get("obj"), cat)]
            ew = [x for x in parts if is_call(x, "QString::endsWith") and is_ref_to(skip_copies(x).get("obj"), cat)]
            if sw and ew and not any(p_.get("id") == n.get("id") for p_, _, _ in pairs):
                pairs.append((n, sw[0], ew[0]))
    # keep outermost conjunctions only
    outer = [p_ for p_ in pairs if not any(any(y.get("id") == p_[0]["id"] for y in walk(q[0])) and q[0]["id"] != p_[0]["id"] for q in pairs)]
    if not outer:
        ck.ob("C15-O6", sitestr(mt), True, "Rule::matches has no prefix-and-suffix short cut", key="Rule::matches|overlap")
        return
    lens = [x for x in mt.all_nodes() if x.get("k") == "binop" and x.get("op") in ("<", ">", "<=", ">=") and
            any(is_call(y, ("QString::length", "QString::size", "QString::count")) and is_ref_to(skip_copies(y).get("obj"), cat) for y in walk(x))]
    for n, sw, ew in outer:
        ck.ob("C15-O6", sitestr(mt, n), False if not lens else None,
              "Rule::matches decides a wildcard rule by %s && %s with no test of the category's length: a category shorter than prefix + suffix passes on overlapping characters "
              "(rule `ab*ba=false`, category `aba`), which the pattern ^ab.*ba$ does not match" % (describe(sw)[:40], describe(ew)[:40]) if not lens else
              "Rule::matches has a prefix-and-suffix short cut with a length test (%s) this rule does not evaluate" % describe(lens[0])[:50], key="Rule::matches|overlap")


def suffix_vocabulary(ck, pr):
    """C15-O7: the type suffixes are .debug .info .warning .critical.  When parseRules() recognises the suffix by asking
    stringToQtMsgType() about a piece of the rule text that the line grammar does not restrict to those four words, every key of that
    helper's table is a suffix — and the table also knows `fatal` (it serves %{if-fatal})."""
    F = ck.facts
    ck.rule("C15-O7", "the type-suffix vocabulary of a rule is exactly debug|info|warning|critical: a suffix is recognised through the line grammar's alternation, not by looking an unrestricted piece of the rule up in stringToQtMsgType")
    calls = [n for n in pr.calls() if name_is(n.get("callee"), "QtLogger::stringToQtMsgType") and n.get("args")]
    st = F.fn("QtLogger::stringToQtMsgType", optional=True)
    keys = set()
    if st is not None:
        dn = st.find(lambda n: n.get("k") == "decl")
        if dn and dn[0].get("vars"):
            keys = {const_str(k) for k, v in initlist_pairs(dn[0]["vars"][0].get("init"))} - {None}
    DOC = {"debug", "info", "warning", "critical"}
    n = 0
    for c in calls:
        a = skip_copies(deref_local(pr, c["args"][0]))
        from_grammar = any(is_call(x, ("QRegularExpressionMatch::captured",)) for x in walk(a))
        if from_grammar:
            continue       # restricted by the alternation of the line grammar (C15-O4 compares it with the table)
        n += 1
        cut = any(is_call(x, ("QString::mid", "QString::section", "QString::right", "QString::split", "QStringRef::toString", "QString::midRef")) for x in walk(a)) or a.get("k") == "ref"
        extra = sorted(keys - DOC)
        ck.ob("C15-O7", sitestr(pr, c), False if (cut and extra) else None,
              "parseRules() takes a piece of the rule text (%s) for a type suffix whenever stringToQtMsgType() knows it: besides the documented four that is %s — a rule `db.%s=false` becomes a typed rule on "
              "category `db` instead of a rule on category `db.%s`" % (describe(a)[:40], extra, extra[0], extra[0]) if (cut and extra) else
              "parseRules() recognises the type suffix through stringToQtMsgType(%s)" % describe(a)[:40], key="parseRules|suffix-vocabulary")
    if not n:
        ck.ob("C15-O7", sitestr(pr), True, "the type suffix is recognised by the line grammar only", key="parseRules|suffix-vocabulary")
