"""C17 — the sorted pipeline keeps handler classes in order for any call sequence (DESIGN.md section 3, C17)."""
import os
import re

from engine.util import *
from engine.extract import REPO

LEVEL = "other"
MIN_OBLIGATIONS = 25
THOROUGH_CONFIGS = ("headeronly",)
TECHNIQUE = "inductive invariant decided through four exact rules: iterator-range validity of every range algorithm, class-set tables of the typed insertions against the rank order, clear/one-formatter rules on the CFG, recognised contract idiom of the two primitives; cached-position rule (a position kept in a data member is written by every function that changes the list); computed class sets evaluated by cases; shared mutable class set rule; fixed-width position masks over the handler list"
LEVEL_TEXT = ("'Sorted by class, stable within a class' is an inductive invariant over arbitrary call sequences. It is decided by rules whose conjunction implies it (argument in DESIGN.md): "
              "every range algorithm gets a valid (first, last) pair of the same direction; each typed insertion uses a primitive with class sets L/R that place the newcomer after all elements "
              "of rank <= K and before all of rank > K (near-left: L = {rank <= K}, R within {rank > K}; near-right: R = {rank > K}, L within {rank <= K}; plain append only for the top class); "
              "setFormatter clears formatters first; clear(type) removes exactly that class; the primitives implement their contract idiom.")
LEVEL_NOTE = "trusts QList::insert / std::find_if / reverse_iterator::base semantics and that type() of the built-in base classes reports the class (Filter/Formatter/Sink/Pipeline::type are final)"
DESIGN_REF = "DESIGN.md section 3, C17"
EXPLANATION = ("Static rules over SortedPipeline: arguments of std::find_if calls classified by iterator direction and sentinel; initializer-list class sets of the five typed insertion methods "
               "compared with the rank table AttrHandler < Filter < Formatter < Sink < Pipeline (also parsed from docs/api/pipelines.md); CFG rules for clear(type) and setFormatter.")
TRUSTED = ["std::reverse_iterator<It>::base() is the forward position just after the element the reverse iterator designates", "QList::insert(pos, v) inserts before pos"]
ASSUMPTIONS = ["only the typed insertion/clearing calls named by the property are used (generic Pipeline::append and insertBetween* with caller-chosen sets are outside)"]
NOT_DECIDED = ["QList::insert itself"]

SP = "QtLogger::SortedPipeline"
RANK = ["AttrHandler", "Filter", "Formatter", "Sink", "Pipeline"]
_rk = lambda x: RANK.index(x) if x in RANK else len(RANK)
METHOD_CLASS = {"appendAttrHandler": "AttrHandler", "appendFilter": "Filter", "setFormatter": "Formatter", "appendSink": "Sink", "appendPipeline": "Pipeline"}
CLEAR_CLASS = {"clearAttrHandlers": "AttrHandler", "clearFilters": "Filter", "clearFormatters": "Formatter", "clearSinks": "Sink", "clearPipelines": "Pipeline"}


def doc_order():
    p = os.path.join(REPO, "docs", "api", "pipelines.md")
    if not os.path.exists(p):
        return None
    m = re.search(r"AttrHandlers?\s*(?:→|->)\s*Filters?\s*(?:→|->)\s*Formatters?\s*(?:→|->)\s*Sinks?\s*(?:→|->)\s*Pipelines?", open(p, errors="replace").read())
    return bool(m)


def iter_kind(n):
    t = (skip_copies(n).get("type") or "")
    return "reverse" if "reverse_iterator" in t else "forward"


def sentinel(n):
    """('end'|'begin'|None, direction) for calls like handlers().end() / rend() / begin() / rbegin()"""
    n = skip_copies(n)
    if n.get("k") == "call" and n.get("ck") == "member":
        nm = (n.get("callee") or "").split("::")[-1]
        if nm in ("end", "cend", "constEnd"):
            return "end", "forward"
        if nm in ("rend", "crend"):
            return "end", "reverse"
        if nm in ("begin", "cbegin", "constBegin"):
            return "begin", "forward"
        if nm in ("rbegin", "crbegin"):
            return "begin", "reverse"
    return None, None


def positions_by_cases(ck, F, en):
    """(True/False/None, text): insertBetweenNearLeft / insertBetweenNearRight executed by cases"""
    from engine.conc import Conc, Unknown, Table
    import itertools
    types = [e["value"] for e in en["enumerators"]]
    helpers = {"NearLeft": F.fn(SP + "::insertBetweenNearLeft", flat=False), "NearRight": F.fn(SP + "::insertBetweenNearRight", flat=False)}

    def reference(kind, lst, left, right):
        if kind == "NearRight":
            ll = max([i for i, t in enumerate(lst) if t in left] or [-1])
            fr = min([i for i, t in enumerate(lst) if i > ll and t in right] or [len(lst)])
            return fr
        fr = min([i for i, t in enumerate(lst) if t in right] or [len(lst)])
        ll = max([i for i, t in enumerate(lst) if i < fr and t in left] or [-1])
        return ll + 1
    sets = []
    for f in F.fns.values():
        if not strip_tmpl(f.name).startswith(SP + "::") or f.body is None:
            continue
        for c in f.calls():
            for kind, h in helpers.items():
                if c.get("fn") == h.id and len(c.get("args", [])) == 3:
                    try:
                        l_ = Conc(F).eval(c["args"][0], {"__fn__": f})
                        r_ = Conc(F).eval(c["args"][1], {"__fn__": f})
                    except Unknown:
                        return None, "the class sets %s passes could not be read" % strip_tmpl(f.name).split("::")[-1]
                    if not (isinstance(l_, Table) and isinstance(r_, Table) and l_.items is not None and r_.items is not None):
                        return None, "the class sets %s passes are not constant sets" % strip_tmpl(f.name).split("::")[-1]
                    sets.append((kind, strip_tmpl(f.name).split("::")[-1], list(l_.items), list(r_.items)))
    if len(sets) < 4:
        return None, "fewer than four callers of the position helpers found"
    ename = {e["value"]: e["name"] for e in en["enumerators"]}
    n = 0
    skipped = {}
    for kind, caller, left, right in sets:
        h = helpers[kind]
        for ln in range(0, 5):
            if kind in skipped:
                break
            for lst in itertools.product(types, repeat=ln):
                cur = [("h", t, i) for i, t in enumerate(lst)]
                new = ("h", types[0], 99)

                def strip_ptr(x):
                    x = skip_copies(x)
                    while isinstance(x, dict) and x.get("k") == "call" and (x.get("op") in ("->", "*") or strip_tmpl(x.get("callee") or "").split("::")[-1] in ("data", "get", "operator->", "operator*")):
                        x = skip_copies(x.get("obj") if x.get("ck") == "member" else (x.get("args") or [None])[0])
                    return x

                def leaf(n_, env, cur=cur):
                    if not isinstance(n_, dict) or n_.get("k") != "call":
                        return None
                    c_ = strip_tmpl(n_.get("callee") or "")
                    if c_ == "QtLogger::Pipeline::handlers":
                        return Table(items=list(cur))
                    if c_.endswith("Handler::type"):
                        it = cc.eval(strip_ptr(n_.get("obj")), env)
                        if isinstance(it, tuple) and it and it[0] == "h":
                            return it[1]
                        raise Unknown("type() of %r" % (it,))
                    if c_.split("::")[-1] == "insert" and n_.get("ck") == "member" and is_call(skip_copies(n_.get("obj")), "QtLogger::Pipeline::handlers") and len(n_.get("args", [])) == 2:
                        i_ = cc.eval(n_["args"][0], env)
                        x_ = cc.eval(n_["args"][1], env)
                        if not isinstance(i_, int) or not (0 <= i_ <= len(cur)):
                            raise Unknown("insert position %r" % (i_,))
                        cur.insert(i_, x_)
                        return 1
                    return None
                cc = Conc(F, leaf=leaf, max_steps=20000)
                try:
                    cc.call_fn(h, [Table(items=list(left)), Table(items=list(right)), new], {})
                except Unknown as e:
                    skipped[kind] = str(e)
                    break
                n += 1
                pos = [i for i, x in enumerate(cur) if x == new]
                want = reference(kind, list(lst), left, right)
                if pos != [want]:
                    return False, "insertBetween%s, called by %s() with left = {%s}, right = {%s}, puts the new handler at position %s of [%s]; the documented position (after the last left-class handler / before the first right-class handler) is %d: the list is no longer ordered by class" % (
                        kind, caller, ", ".join(ename.get(t, str(t)) for t in left), ", ".join(ename.get(t, str(t)) for t in right), pos, ", ".join(ename.get(t, str(t)) for t in lst), want)
    done = sorted(set(helpers) - set(skipped))
    if not done:
        return None, "the position helpers could not be executed by cases (%s)" % "; ".join("%s: %s" % kv for kv in sorted(skipped.items()))
    ck.extra_done_helpers = done
    return True, "insertBetween%s" % " / insertBetween".join(done) + " executed for every handler list of up to 4 elements over the %d classes and the class sets of the %d callers (%d runs): always the documented position" % (len(types), len(sets), n)


def run(ck):
    F = ck.facts
    ck.rule("C17-O1", "every range algorithm in SortedPipeline gets (first, last) of one direction with last an end sentinel of the handler list; a begin() as last is an invalid range")
    ck.rule("C17-O2", "typed insertions: near-left needs L = {rank <= K} and R within {rank > K}; near-right needs R = {rank > K} and L within {rank <= K}; plain append only for the top class; null is ignored")
    ck.rule("C17-O3", "setFormatter clears the formatters before inserting; clear(type) removes exactly the elements whose type() equals its argument; clear<Class> passes its own class")
    ck.rule("C17-O4", "primitives: near-left = first R element forward, last L element before it backwards, insert right after it; near-right = last L element backwards, first R element after it forward, insert before it")
    dok = doc_order()
    ck.ob("C17-O2", "docs/api/pipelines.md", dok if dok is not None else None, "documented order AttrHandlers -> Filters -> Formatters -> Sinks -> Pipelines = the rank table", key="docs|order")
    en = F.enums.get("QtLogger::Handler::HandlerType")
    ck.require(en is not None, "enum Handler::HandlerType not found")
    ename = {e["value"]: e["name"] for e in en["enumerators"]}
    # ---- O1
    n_ranges = 0
    for f in sorted(F.fns.values(), key=lambda f: f.sig):
        if not strip_tmpl(f.name).startswith(SP + "::") or f.lambda_of:
            continue
        ck.touch(f)
        for n in f.calls():
            c = strip_tmpl(n.get("callee") or "")
            if not c.startswith("std::") or c.split("::")[-1] not in ("find_if", "find", "find_if_not", "any_of", "all_of", "none_of", "for_each", "count_if", "lower_bound", "upper_bound", "remove_if", "sort", "stable_sort", "reverse"):
                continue
            a = n.get("args", [])
            if len(a) < 2:
                continue
            n_ranges += 1
            first, last = a[0], a[1]
            ls, ldir = sentinel(last)
            fdir = iter_kind(first)
            if ls == "begin":
                ck.ob("C17-O1", sitestr(f, n), False, "%s searches the range (%s, %s): `last` is a begin iterator, the range is invalid and nothing is ever found" % (c, describe(first), describe(last)),
                      key="%s|invalid-range" % strip_tmpl(f.name).split("::")[-1])
            elif ls == "end":
                ok = (ldir == fdir)
                ck.ob("C17-O1", sitestr(f, n), ok, "%s over (%s, %s): %s range ending in the list's end sentinel" % (c.split("::")[-1], describe(first)[:40], describe(last)[:30], fdir) if ok else
                      "%s mixes a %s first with a %s end sentinel" % (c, fdir, ldir), key="%s|mixed-range" % strip_tmpl(f.name).split("::")[-1])
            else:
                ck.ob("C17-O1", sitestr(f, n), None, "%s: `last` = %s is not a recognised sentinel" % (c, describe(last)))
    fixed_width_position_masks(ck, F)
    v_ = None
    if n_ranges < 4:
        # a position helper rewritten without the range algorithms (index loops): decide it by running it (engine/conc.py) on every handler list of up to
        # four elements over the five classes, for the class sets each caller passes, against the documented position
        v_, why_ = positions_by_cases(ck, F, en)
        if v_ is not None:
            ck.ob("C17-O1", sitestr(F.fn(SP + "::insertBetweenNearRight")), v_, why_, key="insertBetween|by-cases")
    ck.require(n_ranges + 2 * len(getattr(ck, "extra_done_helpers", ())) >= 4, "fewer range-algorithm calls than confirmed by hand (%d < 4)" % n_ranges)
    # ---- O4 primitives
    prim_ok = {}
    prim_ok["insertBetweenNearLeft"] = primitive(ck, F.fn(SP + "::insertBetweenNearLeft"), left=True)
    prim_ok["insertBetweenNearRight"] = primitive(ck, F.fn(SP + "::insertBetweenNearRight"), left=False)
    # ---- O2
    for m, K in METHOD_CLASS.items():
        fn = F.fn(SP + "::" + m)
        ck.touch(fn)
        g = Graph(fn)
        k = RANK.index(K)
        le = set(RANK[:k + 1])
        gt = set(RANK[k + 1:])
        pdecl = fn.params[0]["decl"]
        prim = [n for n in fn.calls() if name_is(n.get("callee"), (SP + "::insertBetweenNearLeft", SP + "::insertBetweenNearRight"))]
        plain = [n for n in fn.calls() if name_is(n.get("callee"), ("QtLogger::Pipeline::append",)) or (name_is(n.get("callee"), "append") and skip_copies(n.get("obj")).get("k") == "this")]
        isnull = lambda n: is_call(n, "isNull") and is_ref_to(skip_copies(n).get("obj"), pdecl)
        if len(prim) + len(plain) != 1:
            if cached_position(ck, fn, m):
                continue
            verdict = sort_based_insertion(ck, fn, m, en)
            if verdict is None:
                ck.ob("C17-O2", sitestr(fn), None, "%s uses %d primitives and %d plain appends" % (m, len(prim), len(plain)))
            continue
        if plain:
            ok = not gt
            ck.ob("C17-O2", sitestr(fn, plain[0]), ok, "%s: plain append is correct for the top class %s" % (m, K) if ok else
                  "%s appends at the end although %s outrank %s: e.g. appendPipeline; %s gives P,%s" % (m, sorted(gt, key=_rk), K, m, K[0]), key="%s|plain-append" % m)
            okarg = is_ref_to(unwrap_ptr(plain[0]["args"][0]), pdecl)
            ck.ob("C17-O2", sitestr(fn, plain[0]), okarg, "%s appends its argument" % m, key="%s|arg" % m)
            continue
        c = prim[0]
        left = name_is(c.get("callee"), SP + "::insertBetweenNearLeft")
        sets = []
        for a in c["args"][:2]:
            vals = [x for x in walk(a) if x.get("k") == "ref" and x.get("dk") == "enumconst"]
            il = [x for x in walk(a) if x.get("k") == "initlist"]
            a0 = skip_copies(a)
            while a0.get("k") in ("cast", "defaultarg") and isinstance(a0.get("e"), dict):
                a0 = skip_copies(a0["e"])
            if not il and a0.get("k") == "construct" and not [x for x in a0.get("args", []) if x.get("k") != "defaultarg"]:
                sets.append(set())      # `{}` / QSet<HandlerType>(): the empty class set
            elif not il:
                # a computed set (helper function, named constant): a shared *mutable* set that the argument expression itself edits
                # (`shared << Filter`) is a violation whatever it holds today; otherwise evaluate it by cases
                muts = [x for x in walk(a) if x.get("k") == "call" and ((x.get("ck") == "operator" and x.get("op") in ("<<", "+=", "|=")) or (x.get("callee") or "").split("::")[-1] in ("insert", "unite", "remove"))]
                shared = None
                for x in muts:
                    tgt = skip_copies((x.get("args") or [None])[0] if x.get("ck") == "operator" else x.get("obj"))
                    while isinstance(tgt, dict) and tgt.get("k") == "call" and tgt.get("ck") == "operator" and tgt.get("op") == "<<":
                        tgt = skip_copies(tgt["args"][0])
                    if isinstance(tgt, dict) and tgt.get("k") == "ref" and tgt.get("dk") not in ("local", "param"):
                        gv = F.globals.get(tgt.get("decl")) or {}
                        if not gv.get("const", False):
                            shared = tgt
                if shared is not None:
                    ck.ob("C17-O2", sitestr(fn, c), False, "%s builds its class set by inserting into the shared variable %s (operator<< / insert modify their left operand): the classes added here stay in it for "
                          "every later call and every other pipeline, so another typed insertion searches with the wrong set" % (m, shared.get("name")), key="%s|class-sets" % m)
                    sets.append("shared")
                    continue
                try:
                    from engine.conc import Conc, Unknown, Table
                    v_ = Conc(F, max_steps=20000).eval(a, {"__fn__": fn})
                    sets.append({ename.get(x, "?%s" % x) for x in v_.items} if isinstance(v_, Table) and v_.items is not None else None)
                except Exception:
                    sets.append(None)
            else:
                sets.append({ename.get(v.get("value"), "?") for v in vals})
        if "shared" in sets:
            continue
        if None in sets:
            ck.ob("C17-O2", sitestr(fn, c), None, "%s: class sets are neither literal initializer lists nor expressions the evaluation by cases can tabulate" % m)
            continue
        L, R = sets
        # the generic class `Handler` has no rank and no typed insertion produces it: naming it in a set changes nothing for lists built
        # through the typed calls
        L, R = set(L) - {"Handler"}, set(R) - {"Handler"}
        if left:
            ok = (L == le) and (R <= gt)
            why = "near-left with L=%s R=%s" % (sorted(L, key=_rk), sorted(R, key=_rk))
            if L != le:
                why += "; L must be exactly the classes of rank <= %s %s" % (K, sorted(le, key=_rk))
            if not R <= gt:
                why += "; R contains a class that does not outrank %s" % K
        else:
            ok = (R == gt) and (L <= le)
            why = "near-right with L=%s R=%s" % (sorted(L, key=_rk), sorted(R, key=_rk))
            if R != gt:
                why += "; R must be exactly the classes outranking %s %s (a missing class lets the handler land behind it)" % (K, sorted(gt, key=_rk))
            if not L <= le:
                why += "; L contains a class that outranks %s" % K
        ck.ob("C17-O2", sitestr(fn, c), ok, "%s: %s places %s after every rank <= %s and before every rank > %s" % (m, why, K, K, K) if ok else "%s: %s" % (m, why), key="%s|class-sets" % m)
        okarg = is_ref_to(unwrap_ptr(c["args"][2]), pdecl)
        ck.ob("C17-O2", sitestr(fn, c), okarg, "%s inserts its argument" % m, key="%s|arg" % m)
        cs = g.site_of(c)
        a = g.must_pass({cs}, keep=g.projector(atom_eq(isnull, False))) and not g.in_cycle(cs)
        b = cs not in g.live(g.projector(atom_eq(isnull, True)))
        ck.ob("C17-O2", sitestr(fn, c), a and b, "%s inserts exactly once for a non-null handler and ignores null" % m if (a and b) else "%s: once-when-non-null=%s, ignored-when-null=%s" % (m, a, b), key="%s|null" % m)
        if m == "setFormatter":
            clr = [n for n in fn.calls() if name_is(n.get("callee"), (SP + "::clearFormatters",)) or (name_is(n.get("callee"), SP + "::clear") and n.get("args") and ename.get(const_int(n["args"][0])) == "Formatter")]
            ok = bool(clr) and g.dominated(cs, set(g.sites_of_nodes(clr)))
            ck.ob("C17-O3", sitestr(fn), ok, "setFormatter removes the previous formatter before inserting (at most one formatter)" if ok else "setFormatter does not clear the previous formatter first", key="setFormatter|no-clear")
    # ---- O3 clear
    cl = F.fn(SP + "::clear", nparams=1)
    ck.touch(cl)
    g = Graph(cl)
    tdecl = cl.params[0]["decl"]
    eqs = [n for n in cl.find(lambda n: n.get("k") == "binop" and n.get("op") in ("==", "!=") and (is_ref_to(n.get("lhs"), tdecl) or is_ref_to(n.get("rhs"), tdecl)))]
    rem = [n for n in cl.calls() if n.get("ck") == "member" and name_is(n.get("callee"), ("remove", "erase", "removeAt"))]
    algo = [n for n in cl.calls() if strip_tmpl(n.get("callee") or "") in ("std::partition", "std::stable_partition", "std::remove_if", "std::remove", "std::erase_if")]
    if algo:
        algorithm_clear(ck, cl, algo[0], tdecl)
    elif len(eqs) != 1 or len(rem) != 1:
        ck.ob("C17-O3", sitestr(cl), None, "clear(type): %d comparisons with the argument, %d removals" % (len(eqs), len(rem)))
    else:
        e = eqs[0]
        other = skip_copies(e.get("rhs") if is_ref_to(e.get("lhs"), tdecl) else e.get("lhs"))
        okt = is_call(other, "QtLogger::Handler::type") and other.get("virtual")
        ck.ob("C17-O3", sitestr(cl, e), okt, "clear(type) compares each element's type() with its argument" if okt else "clear(type) compares %s" % describe(other), key="clear|compares")
        rs_ = g.site_of(rem[0])
        hit = lambda n: n.get("id") == e["id"]
        for val in (True, False):
            keep = g.projector(atom_eq(hit, val if e.get("op") == "==" else not val))
            loops = find_loops(cl)
            cond = g.site_of(loops[0]["cond"]) if loops and loops[0].get("cond") else None
            es = g.site_of(e)
            if val:
                ok = g.postdominated(es, {rs_}, keep=keep)
                ck.ob("C17-O3", sitestr(cl, rem[0]), ok, "an element of the requested class is always removed" if ok else "an element of the requested class can survive clear(type)", key="clear|keeps-match")
            else:
                ok = rs_ not in g.reach([es], blocked={cond} if cond else (), keep=keep, include_start=False)
                ck.ob("C17-O3", sitestr(cl, rem[0]), ok, "elements of other classes are kept" if ok else "clear(type) also removes elements of other classes", key="clear|removes-others")
        loops = find_loops(cl)
        noexit = not cl.find(lambda n: n.get("k") in ("break", "return"))
        java_style = len(loops) == 1 and any(is_call(x, "hasNext") for x in walk(loops[0].get("cond")))
        # `for (it = l.begin(); it != l.end(); ) { if (...) it = l.erase(it); else ++it; }`
        erase_style = False
        if len(loops) == 1 and not java_style:
            lp = loops[0]
            cnd = skip_copies(lp.get("cond")) if isinstance(lp.get("cond"), dict) else None
            ends = [x for x in walk(cnd)] if cnd else []
            to_end = isinstance(cnd, dict) and cnd.get("op") == "!=" and any(is_call(x, ("end", "cend", "constEnd")) for x in ends)
            itd = None
            for x in walk(lp.get("init") or {}):
                if x.get("k") == "decl" and x.get("vars"):
                    itd = x["vars"][0].get("decl")
            if itd is None and isinstance(cnd, dict):
                for x in walk(cnd):
                    if x.get("k") == "ref" and x.get("dk") == "local":
                        itd = x.get("decl")
            erase_asg = [n for n in cl.calls() if n.get("op") == "=" and len(n.get("args", [])) == 2 and is_ref_to(n["args"][0], itd) and is_call(n["args"][1], ("erase",))]
            erase_asg += [n for n in cl.find(lambda n: n.get("k") == "binop" and n.get("op") == "=" and is_ref_to(n.get("lhs"), itd) and is_call(n.get("rhs"), ("erase",)))]
            steps = [n for n in cl.find(lambda n: (n.get("k") == "unop" and n.get("op") == "++" and is_ref_to(n.get("e"), itd)) or (n.get("k") == "call" and n.get("op") == "++" and n.get("args") and is_ref_to(n["args"][0], itd)))]
            if to_end and itd and erase_asg and steps:
                gs_ = g
                cnds = gs_.site_of(lp["cond"])
                adv = set(gs_.sites_of_nodes(erase_asg + steps))
                # every iteration either erases (iterator = next element) or steps; never both, never neither
                one = cnds not in gs_.reach([cnds], blocked=adv, keep=lambda e_: not (e_.src == cnds and e_.idx == 1), include_start=False)
                erase_style = bool(one)
        okl = (java_style or erase_style) and noexit
        ck.ob("C17-O3", sitestr(cl), True if okl else (False if (java_style or erase_style) and not noexit else None),
              "every element is visited (%s loop without early exit)" % ("hasNext" if java_style else "erase/advance") if okl else
              "clear(type) may stop early" if not noexit else "clear(type): loop form not recognised", key="clear|early-exit")
    for m, K in CLEAR_CLASS.items():
        fn = F.fn(SP + "::" + m)
        ck.touch(fn)
        cs = [n for n in fn.calls(SP + "::clear") if n.get("args")]
        ok = len(cs) == 1 and ename.get(const_int(cs[0]["args"][0])) == K and Graph(fn).must_pass({Graph(fn).site_of(cs[0])})
        ck.ob("C17-O3", sitestr(fn), ok, "%s -> clear(%s)" % (m, K) if ok else "%s clears %s" % (m, [ename.get(const_int(c["args"][0])) for c in cs]), key="%s|class" % m)
    # type() of the classes
    for K in RANK:
        t = F.fn("QtLogger::%s::type" % K)
        rs = returns(t)
        v = const_int(rs[0].get("e")) if len(rs) == 1 else None
        ok = ename.get(v) == K
        ck.ob("C17-O3", sitestr(t), ok, "%s::type() reports %s" % (K, K) if ok else "%s::type() reports %s" % (K, ename.get(v)), key="%s::type" % K)


def pred_param(F, fn, lam_node):
    """which QSet parameter of fn the predicate lambda consults: index or None; requires `set.contains(x->type())`"""
    lam = skip_copies(lam_node)
    if lam.get("k") == "ref":
        lam = skip_copies(deref_local(fn, lam))
    helper_arg = None
    if lam.get("k") == "call" and lam.get("fn") in F.fns and lam.get("args"):
        # predicate factory: helper(set) { return [&set](const HandlerPtr &h) { return set.contains(h->type()); }; }
        hf = F.fns[lam["fn"]]
        hr = returns(hf)
        if len(hr) == 1 and skip_copies(hr[0].get("e")).get("k") == "lambda" and len(hf.params) == 1 and len(lam["args"]) == 1:
            helper_arg = (hf.params[0], skip_copies(lam["args"][0]))
            lam = skip_copies(hr[0].get("e"))
        elif lam.get("inl_value") is not None and skip_copies(fn.nodes.get(lam["inl_value"], {})).get("k") == "lambda" and len(hf.params) == 1:
            helper_arg = (hf.params[0], skip_copies(lam["args"][0]))
            lam = skip_copies(fn.nodes[lam["inl_value"]])
    if lam.get("k") != "lambda":
        return None
    lf = F.fns.get(lam["fn"])
    if lf is None and len(lam.get("insts", [])) == 1:
        lf = F.fns.get(lam["insts"][0])  # generic lambda with a single instantiation
    if lf is None:
        return None
    rs = returns(lf)
    if len(rs) != 1:
        return None
    e = skip_copies(rs[0].get("e"))
    if not (is_call(e, "QSet::contains") and e.get("args")):
        return None
    a = skip_copies(e["args"][0])
    if not (is_call(a, "QtLogger::Handler::type") and is_ref_to(unwrap_ptr(a.get("obj")), lf.params[0]["decl"])):
        return None
    o = skip_copies(e.get("obj"))
    if helper_arg is not None:
        hp, harg = helper_arg
        if (o.get("k") == "ref" and (o.get("decl") or "").split("@inl")[0] == hp["decl"]) or (o.get("name") or "").split("::")[-1] == hp.get("name"):
            o = harg   # the factory's parameter stands for the argument it was called with
        else:
            return None
    # captured by reference: the capture refers to the enclosing function's parameter
    for i, p in enumerate(fn.params):
        if o.get("k") == "ref" and o.get("decl") == p["decl"]:
            return i
        if o.get("k") in ("member", "ref") and (o.get("name") or "").split("::")[-1] == p["name"]:
            return i
    return None


def primitive(ck, fn, left):
    F = ck.facts
    ck.touch(fn)
    g = Graph(fn)
    nm = strip_tmpl(fn.name).split("::")[-1]
    finds = [n for n in fn.calls() if strip_tmpl(n.get("callee") or "") == "std::find_if"]
    ins = [n for n in fn.calls() if n.get("ck") == "member" and is_call(n, ("QList::insert", "QVector::insert", "std::vector::insert"))]
    if (len(finds) != 2 or len(ins) != 1) and nm.replace("insertBetween", "") in getattr(ck, "extra_done_helpers", ()):
        ck.ob("C17-O4", sitestr(fn), True, "%s: the position it chooses was decided by executing it by cases (C17-O1)" % nm, key="%s|contract" % nm)
        return
    if len(finds) != 2 or len(ins) != 1:
        ck.ob("C17-O4", sitestr(fn), None, "%s: %d find_if / %d insert calls; contract idiom not recognised" % (nm, len(finds), len(ins)))
        return False
    finds.sort(key=lambda n: n["id"])
    f1, f2 = finds
    if not g.dominated(g.site_of(f2), {g.site_of(f1)}):
        f1, f2 = f2, f1
    p1, p2 = pred_param(F, fn, f1["args"][2]), pred_param(F, fn, f2["args"][2])
    r1 = None
    for a in fn.ancestors(f1):
        if a.get("k") == "decl":
            r1 = a["vars"][0]["decl"]
    r2 = None
    for a in fn.ancestors(f2):
        if a.get("k") == "decl":
            r2 = a["vars"][0]["decl"]
    s1f, s1l = f1["args"][0], f1["args"][1]
    s2f, s2l = f2["args"][0], f2["args"][1]
    pos = skip_copies(ins[0]["args"][0])
    val = skip_copies(ins[0]["args"][1])
    LEFT, RIGHT, H = 0, 1, 2
    if left:
        c1 = sentinel(s1f) == ("begin", "forward") and sentinel(s1l) == ("end", "forward") and p1 == RIGHT
        x = skip_copies(s2f)
        c2 = is_call(x, ("std::make_reverse_iterator",)) and is_ref_to(x["args"][0], r1) and sentinel(s2l) == ("end", "reverse") and p2 == LEFT
        if not c2 and x.get("k") == "construct" and "reverse_iterator" in (x.get("class") or "") and x.get("args") and is_ref_to(x["args"][0], r1):
            c2 = sentinel(s2l) == ("end", "reverse") and p2 == LEFT
        c3 = is_call(pos, "base") and is_ref_to(skip_copies(pos).get("obj"), r2)
        what = "first R element forward; last L element before it backwards; insert at its base()"
    else:
        c1 = sentinel(s1f) == ("begin", "reverse") and sentinel(s1l) == ("end", "reverse") and p1 == LEFT
        x = skip_copies(s2f)
        c2 = is_call(x, "base") and is_ref_to(skip_copies(x).get("obj"), r1) and sentinel(s2l) == ("end", "forward") and p2 == RIGHT
        c3 = is_ref_to(pos, r2)
        what = "last L element backwards; first R element from its base() forward; insert before it"
    c4 = is_ref_to(val, fn.params[H]["decl"])
    once = g.must_pass({g.site_of(ins[0])}) and not g.in_cycle(g.site_of(ins[0]))
    ok = bool(c1 and c2 and c3 and c4 and once)
    definite = (p1 is not None and p2 is not None)
    ck.ob("C17-O4", sitestr(fn), ok if (ok or definite) else None, "%s: %s" % (nm, what) if ok else
          "%s deviates from its contract: first search ok=%s, second search ok=%s, insert position ok=%s, inserted value ok=%s, exactly once=%s" % (nm, bool(c1), bool(c2), bool(c3), bool(c4), once), key="%s|contract" % nm)
    return ok


def _lambda_type_compare(F, lam_node, other_is):
    """for a predicate/comparator lambda: list of (op, lhs-is-type()-call, rhs) comparisons of element type() values"""
    lam = skip_copies(lam_node)
    if not (isinstance(lam, dict) and lam.get("k") == "lambda"):
        return None, None
    lf = F.fns.get(lam.get("fn"))
    if lf is None:
        return None, None
    cmps = [n for n in lf.find(lambda n: n.get("k") == "binop" and n.get("op") in ("==", "!=", "<", ">", "<=", ">="))]
    return lf, cmps


def algorithm_clear(ck, cl, call, tdecl):
    """clear(type) written with a standard algorithm + erase: the algorithm must keep the relative order of the survivors"""
    F = ck.facts
    name = strip_tmpl(call.get("callee") or "").split("::")[-1]
    lam = [a for a in call.get("args", []) if skip_copies(a).get("k") == "lambda"]
    lf, cmps = _lambda_type_compare(F, lam[0], None) if lam else (None, None)
    if name == "partition":
        ck.ob("C17-O3", sitestr(cl, call), False, "clear(type) uses std::partition, which does not keep the relative order of the elements it keeps: handlers that survive a clear (and every setFormatter) are reordered, "
              "e.g. a sink or nested pipeline ends up in front of the formatter", key="clear|unstable-algorithm")
        return
    if lf is None or not cmps or len(cmps) != 1:
        ck.ob("C17-O3", sitestr(cl, call), None, "clear(type): predicate of std::%s not recognised" % name)
        return
    ck.touch(lf)
    c = cmps[0]
    sides = [skip_copies(c.get("lhs")), skip_copies(c.get("rhs"))]
    has_type = any(is_call(x, "QtLogger::Handler::type") for x in sides)
    has_arg = any(x.get("k") == "ref" and x.get("decl") == tdecl for x in sides)
    # remove_if / erase_if remove the elements for which the predicate holds; stable_partition keeps them in front
    want = "==" if name in ("remove_if", "erase_if") else "!="
    ok = has_type and has_arg and c.get("op") == want
    ck.ob("C17-O3", sitestr(cl, call), ok, "clear(type) removes exactly the elements whose type() equals the argument with the order-preserving std::%s" % name if ok else
          "clear(type): std::%s with predicate %s does not remove exactly the elements of the given type" % (name, describe(c)), key="clear|compares")
    er = [n for n in cl.calls() if n.get("ck") == "member" and name_is(n.get("callee"), ("erase",))]
    if name != "erase_if":
        oke = len(er) == 1 and any(x.get("id") == call["id"] for x in walk(er[0])) and any(sentinel(a)[0] == "end" for a in er[0].get("args", []))
        ck.ob("C17-O3", sitestr(cl, er[0]) if er else sitestr(cl), oke, "the tail returned by the algorithm is erased up to end()" if oke else "the result of std::%s is not erased up to end()" % name, key="clear|erase-tail")


def sort_based_insertion(ck, fn, m, en):
    """typed insertion written as append + sort by class (possibly in a helper): must be a *stable* sort on the class rank"""
    F = ck.facts
    cands = [fn] + [F.fns[n["fn"]] for n in fn.calls() if n.get("fn") in F.fns and strip_tmpl(F.fns[n["fn"]].name).startswith(SP + "::")]
    for f in cands:
        sorts = [n for n in f.calls() if strip_tmpl(n.get("callee") or "") in ("std::sort", "std::stable_sort", "std::partial_sort", "std::nth_element")]
        if not sorts:
            continue
        ck.touch(f)
        st = sorts[0]
        nm = strip_tmpl(st["callee"]).split("::")[-1]
        where = "%s (via %s)" % (m, strip_tmpl(f.name).split("::")[-1]) if f.id != fn.id else m
        if nm != "stable_sort":
            ck.ob("C17-O2", sitestr(f, st), False, "%s orders the list with std::%s, which is not stable: handlers of one class can change their relative order (libstdc++ keeps it only for lists of up to 16 elements)" % (where, nm),
                  key="%s|unstable-sort" % m)
            return False
        lam = [a for a in st.get("args", []) if skip_copies(a).get("k") == "lambda"]
        lf, cmps = _lambda_type_compare(F, lam[0], None) if lam else (None, None)
        vals = [e["value"] for e in en["enumerators"]]
        rank_order = [e["name"] for e in sorted(en["enumerators"], key=lambda e: e["value"])]
        okr = [x for x in rank_order if x in RANK] == RANK
        okc = lf is not None and cmps and len(cmps) == 1 and cmps[0].get("op") == "<" and all(is_call(x, "QtLogger::Handler::type") for x in (cmps[0].get("lhs"), cmps[0].get("rhs")))
        ok = bool(okr and okc)
        ck.ob("C17-O2", sitestr(f, st), ok if ok else None, "%s: append + std::stable_sort by type(), and the HandlerType enumerators are declared in class order %s" % (where, RANK) if ok else
              "%s: stable_sort comparator / enumerator order not recognised" % where, key="%s|stable-sort" % m)
        return ok if ok else None
    return None


LIST_MUTATORS = ("insert", "append", "prepend", "push_back", "push_front", "remove", "removeAt", "removeAll", "removeOne", "removeFirst", "removeLast", "erase", "clear", "takeAt", "takeFirst",
                 "takeLast", "swap", "move", "swapItemsAt", "operator=", "operator<<", "operator+=", "resize", "pop_back", "pop_front")


def cached_position(ck, fn, m):
    """typed insertion at a position kept in a data member (a count of the handlers of some class): the member is right only as long as
    *every* function that changes the handler list keeps it up to date.  Returns True when the idiom was recognised (obligations
    emitted), False otherwise."""
    F = ck.facts
    ins = [n for n in fn.calls() if n.get("ck") == "member" and name_is(n.get("callee"), ("insert",)) and len(n.get("args", [])) >= 2
           and (is_call(skip_copies(n.get("obj")), ("QtLogger::Pipeline::handlers", "handlers")) or is_this_field(skip_copies(n.get("obj")), "QtLogger::Pipeline::m_handlers"))]
    if len(ins) != 1:
        return False
    pos = skip_copies(ins[0]["args"][0])
    flds = [x for x in walk(pos) if x.get("k") == "member" and x.get("dk") == "field" and skip_copies(x.get("base") or {}).get("k") == "this"]
    if len(flds) != 1:
        return False
    fld = flds[0].get("name")
    ck.touch(fn)
    # every function of the pipeline classes that changes the list
    stale = []
    n_mut = 0
    for f in sorted(F.fns.values(), key=lambda f: (f.file, f.line, f.sig)):
        if f.body is None or strip_tmpl(f.cls or "") not in ("QtLogger::Pipeline", "QtLogger::SortedPipeline") or f.d.get("kind") in ("ctor", "dtor") or f.id == fn.id:
            continue
        muts = [n for n in f.calls() if (n.get("callee") or "").split("::")[-1] in LIST_MUTATORS and isinstance(n.get("obj") or (n.get("args") or [None])[0], dict)
                and (is_call(skip_copies(n.get("obj") or n["args"][0]), ("QtLogger::Pipeline::handlers", "handlers")) or is_this_field(skip_copies(n.get("obj") or n["args"][0]), "QtLogger::Pipeline::m_handlers"))]
        if not muts:
            continue
        n_mut += 1
        writes = [x for x in f.all_nodes() if x.get("k") == "member" and x.get("name") == fld and write_kind(f, x)]
        # a mutator that delegates to another mutator which keeps the member is fine only if it is that other function that edits the list
        if not writes:
            stale.append((f, muts[0]))
    stale.sort(key=lambda x: 0 if (x[1].get("callee") or "").split("::")[-1] in ("remove", "removeAt", "removeAll", "erase", "clear", "takeAt", "removeFirst", "removeLast") else 1)
    ck.ob("C17-O2", sitestr(fn, ins[0]), False if stale else None,
          "%s inserts at the position kept in %s; %s changes the handler list without updating it (%s): after that call the position is stale and the next %s lands in the wrong class block" %
          (m, fld.split("::")[-1], stale[0][0].name.split("QtLogger::")[-1], describe(stale[0][1])[:40], m) if stale else
          "%s inserts at the position kept in %s, which all %d list-changing functions write: whether they keep it equal to the block length is not decided here" % (m, fld.split("::")[-1], n_mut),
          key="%s|cached-position" % m)
    return True



def fixed_width_position_masks(ck, F):
    """C17-O1 (any list length): a fixed-width integer used as a set of list positions - one bit per handler, built by shifting once per element of the
    handler list - stands for the first 32 / 64 handlers only. The position search then does not see the handlers behind that index and the new
    handler lands in front of them. (Evaluation by cases over short lists cannot see this; the width is read from the type.)"""
    roots = [f for f in F.fns.values() if f.cls == SP and f.body is not None and strip_tmpl(f.name).split("::")[-1] in ("insertBetweenNearLeft", "insertBetweenNearRight", "clear", "appendAttrHandler", "appendFilter", "setFormatter", "appendSink", "appendPipeline")]
    reach = F.reachable_from(roots, virtual=False) if roots else set()
    WIDTH = {"quint8": 8, "unsigned char": 8, "quint16": 16, "unsigned short": 16, "quint32": 32, "unsigned int": 32, "uint": 32, "int": 32, "qint32": 32, "quint64": 64, "unsigned long": 64, "unsigned long long": 64,
             "qulonglong": 64, "qint64": 64, "long": 64, "long long": 64, "size_t": 64}
    for fid in sorted(reach):
        f = F.fns.get(fid)
        if f is None or f.body is None or not in_lib(f.file):
            continue
        for loop in find_loops(f):
            rng = loop.get("range") if loop.get("k") == "rangefor" else None
            over_list = isinstance(rng, dict) and any(is_this_field(x, "QtLogger::Pipeline::m_handlers") or is_call(x, "QtLogger::Pipeline::handlers") for x in walk(rng))
            if not over_list and loop.get("k") in ("for", "while"):
                over_list = isinstance(loop.get("cond"), dict) and any((is_call(x, ("size", "count", "length")) or is_call(x, ("end", "cend", "constEnd"))) and
                                                                        any(is_this_field(y, "QtLogger::Pipeline::m_handlers") or is_call(y, "QtLogger::Pipeline::handlers") for y in walk(x)) for x in walk(loop["cond"]))
            if not over_list:
                continue
            body = loop.get("body")
            for n in (walk(body) if isinstance(body, dict) else ()):
                if n.get("k") == "binop" and n.get("op") in ("<<=", "<<") and isinstance(n.get("lhs"), dict):
                    t = (skip_copies(n["lhs"]).get("type") or n.get("type") or "").replace("const ", "").strip()
                    w = WIDTH.get(t)
                    tgt = skip_copies(n["lhs"])
                    if w is None or tgt.get("k") not in ("ref", "int", "cast"):
                        continue
                    ck.ob("C17-O1", sitestr(f, n), False, "%s builds a %d-bit mask with one bit per handler (%s in a loop over the handler list): handlers at index %d and beyond have no bit, the position search does not see them "
                          "and the typed insertion puts the new handler in front of them" % (strip_tmpl(f.name).replace("QtLogger::", ""), w, describe(n)[:30], w), key="position-mask|%s" % strip_tmpl(f.name).split("::")[-1])
                    break
