"""C10 — a crash or I/O failure during rotation destroys nothing: ordering argument on the CFG (DESIGN.md section 3, C10)."""
from engine.util import *
from rules.rfs import *
from rules.c05 import allowed_destructive
from rules.c06 import pattern_templates

LEVEL = "other"
MIN_OBLIGATIONS = 14
THOROUGH_CONFIGS = ("headeronly",)
TECHNIQUE = "ordering (dominance / post-dominance) of the file operations of rotate() and compressFile() on the CFG projected on each operation's success or failure; destructive-call allow-list scoped by reachability; open-mode constant folding; the next-index listing rule (no wildcard name filter from the file name) shared; retention executed by cases once more per removal call with that call failing: no file outside the ones the limit asks for is handed to a removal; compressFile may remove its own incomplete <parameter>.gz on a path that keeps the rotated file"
LEVEL_TEXT = ("A crash-consistency argument is an ordering argument, which the CFG decides for every crash point and every single failure at once: flushed records are always in at least one "
              "complete file because close precedes rename, compression runs only after a successful rename and removes the original only after the compressed copy is closed, failure to "
              "open either file returns before anything destructive, the active file is reopened (append, no truncate) on every path including the failed rename, retention runs only after "
              "the rename, and the next-index search counts plain and compressed leftovers. Power-loss durability (fsync) is not claimed by the property.")
LEVEL_NOTE = "trusts POSIX rename atomicity, QFile::close() flushing, QFile::rename refusing an existing target"
DESIGN_REF = "DESIGN.md section 3, C10"
EXPLANATION = ("Dominance facts between the calls close / rename / compressFile / removeOldFiles / open in rotate(), each also under the projection 'rename failed' / 'rename succeeded'; "
               "in compressFile() the projections 'input cannot be opened' / 'output cannot be created'; the allow-list of destructive calls reachable from the sinks' entry points; "
               "the flags of every open of the active file; the leftover-safe index pattern.")
TRUSTED = ["rename(2) is atomic", "a closed QFile holds no unflushed data", "QFile::rename refuses to overwrite"]
ASSUMPTIONS = ["single process writing the log directory"]
NOT_DECIDED = ["power-loss durability (no fsync is claimed)", "write errors on a full disk while the compressed copy is produced (the copy's completeness is not verified before the original is removed)"]


def run(ck):
    S = Sink(ck)
    F = ck.facts
    ck.rule("C10-O1", "rotate(): close < rename < compress < clean-up; compress only after a successful rename; the active file is reopened on every path after close, also when the rename failed")
    ck.rule("C10-O2", "compressFile(): nothing destructive when either file cannot be opened; the original is removed only after the compressed copy was closed")
    ck.rule("C10-O3", "no other destructive file call is reachable from the sinks; the index search counts plain and .gz leftovers")
    ck.rule("C10-O4", "every open of the active file appends and never truncates")
    rt = S.m["rotate"]
    g = S.g(rt)
    closes = [n for n in rt.calls(("QFileDevice::close", "QFile::close", "QIODevice::close")) if S.is_active_file(n.get("obj"))]
    renames = [n for n in rt.calls() if destructive_kind(n) == "rename"]
    comp = [n for n in S.calls_to(rt, "compressFile")]
    clean = [n for n in S.calls_to(rt, "removeOldFiles")]
    opens = [n for n in rt.calls(("QFile::open", "QIODevice::open", "QFileDevice::open")) if S.is_active_file(n.get("obj"))]
    if len(renames) == 1 and not closes:
        ck.ob("C10-O1", sitestr(rt, renames[0]), False, "the active file is renamed without being closed (flushed) first", key="rotate|rename-before-close")
    if len(closes) != 1 or len(renames) != 1 or not opens:
        ck.ob("C10-O1", sitestr(rt), None, "rotate(): close/rename/open anchors not found (%d/%d/%d); ordering rules cannot be decided" % (len(closes), len(renames), len(opens)))
    else:
        rotate_order(ck, S, rt, g, closes, renames, comp, clean, opens)
    # ---- O2
    cf = S.m["compressFile"]
    gc = S.g(cf)
    co = [n for n in cf.calls(("QFile::open", "QIODevice::open", "QFileDevice::open", "QSaveFile::open"))]
    ck.require(len(co) == 2, "compressFile: expected two opens")
    dest = [n for n in cf.calls() if destructive_kind(n) == "remove"]
    writes = [n for n in cf.calls() if n.get("ck") == "member" and name_is(n.get("callee"), ("putChar", "write"))]
    for o in co:
        fl = open_flags(o)
        kind = "input" if fl == 1 else "output"
        keep = gc.projector(atom_eq(value_pred(cf, o), False))
        live = gc.live(keep)
        bad = [describe(n)[:40] for n in dest + (writes if kind == "input" else []) if gc.site_of(n) in live]
        ck.ob("C10-O2", sitestr(cf, o), not bad, "if the %s file cannot be opened nothing is written or removed" % kind if not bad else "although the %s file could not be opened: %s" % (kind, bad), key="compressFile|destructive-after-failed-open|%s" % kind)
    outs = [o for o in co if open_flags(o) != 1]
    if outs and dest:
        outdecl = skip_copies(outs[0].get("obj")).get("decl")
        cls = [n for n in cf.calls(("QFileDevice::close", "QFile::close", "QIODevice::close")) if is_ref_to(n.get("obj"), outdecl)]
        commits = [n for n in cf.calls(("QSaveFile::commit",)) if is_ref_to(n.get("obj"), outdecl)]
        if commits and not cls:
            # QSaveFile: the archive exists under its final name only if commit() returned true
            okd = gc.dominated(gc.site_of(dest[0]), set(gc.sites_of_nodes(commits)))
            live_f = gc.live(gc.projector(atom_eq(value_pred(cf, commits[0]), False)))
            okg = gc.site_of(dest[0]) not in live_f
            ck.ob("C10-O2", sitestr(cf, dest[0]), okd and okg, "the original is removed only after commit() of the compressed copy returned true" if (okd and okg) else
                  "the original is removed although QSaveFile::commit() may have failed (its result is not checked): a failed publish of the .gz deletes the only copy" if okd else
                  "the original is removed before the compressed copy is committed", key="compressFile|remove-before-close")
        else:
            ok = bool(cls) and gc.dominated(gc.site_of(dest[0]), set(gc.sites_of_nodes(cls)))
            ck.ob("C10-O2", sitestr(cf, dest[0]), ok, "the original is removed only after the compressed copy was closed" if ok else "the original is removed before the compressed copy is closed", key="compressFile|remove-before-close")
    # ---- O3
    n_sites = 0
    for f, n, k in S.destructive_sites():
        n_sites += 1
        ok, why = allowed_destructive(S, f, n, k)
        ck.ob("C10-O3", sitestr(f, n), ok, "%s: %s" % (describe(n)[:60], why) if ok else "unsanctioned destructive call %s: %s" % (describe(n)[:80], why),
              key="destructive|%s|%s|%s" % (strip_tmpl(f.name).split("::")[-1], k, why if not ok else "ok"))
    ck.require(n_sites >= 4, "fewer destructive call sites than confirmed by hand (%d < 4)" % n_sites)
    from rules.c06 import unlimited_deletes_nothing
    unlimited_deletes_nothing(ck, S, "C10-O3")
    # a removal that fails is not made up for by removing another file: retention executed by cases, once more per removal call with that call failing
    from rules.rfs import retention_by_cases
    v_, why_ = retention_by_cases(ck, S, "C10-O3", failures=True)
    if v_ is not None:
        ck.ob("C10-O3", sitestr(S.m["removeOldFiles"]), v_, why_ if v_ else why_ + ": a single failed unlink costs a newer log file that the retention policy keeps", key="removeOldFiles|failed-removal-by-cases")
    fi = S.m["findNextIndexForDate"]
    from rules.c06 import regex_patterns
    tp = [t for t in regex_patterns(F, fi) if t[0].startswith("^")]
    from rules.rfs import end_anchor
    okgz = len(tp) >= 2 and all(end_anchor(t[0])[1].endswith("(\\.gz)?") for t in tp)
    ck.ob("C10-O3", sitestr(fi), okgz, "the next index is searched over plain and .gz names: a leftover of either form is never reused" if okgz else "the index search ignores one of the two forms", key="findNextIndexForDate|leftover-form")
    # compressFile() opens <rotated name>.gz for writing, which truncates: the rotated name must be one no earlier rotation has used. That is the
    # next-index rule over a scan that sees every name the writer produces (shared with C05-O6 / C09-O2 / C09-O3)
    from rules.c09 import next_index, name_scheme
    from rules.c06 import name_pattern
    name_pattern(ck, S, fi, "C10-O3", date_is_class=False)     # ... over a listing that leaves no rotated file out (no wildcard name filter built from the file name)
    next_index(ck, S, "C10-O3")
    name_scheme(ck, S, "C10-O3")
    # ---- O4
    allopens = [(rt, o) for o in opens] + [(S.fs_ctor, o) for o in S.fs_ctor.calls(("QFile::open", "QIODevice::open", "QFileDevice::open"))]
    for f, o in allopens:
        fl = open_flags(o)
        ok = fl is not None and fl & 2 and fl & 4 and not fl & 8
        ck.ob("C10-O4", sitestr(f, o), ok if fl is not None else None, "opened with %s" % flagnames(fl), key="open-flags|%s" % strip_tmpl(f.name).split("::")[-1])


def rotate_order(ck, S, rt, g, closes, renames, comp, clean, opens):
    cl, rn = g.site_of(closes[0]), g.site_of(renames[0])
    ok = g.dominated(rn, {cl}) and not g.can_reach(rn, cl)
    ck.ob("C10-O1", sitestr(rt, renames[0]), ok, "the active file is closed (flushed) before it is renamed" if ok else "the file is renamed while still open/unflushed", key="rotate|rename-before-close")
    is_rn = value_pred(rt, renames[0])
    # QFile::rename / QDir::rename answer true on success; rename(2) / std::rename answer 0 on success
    raw_rn = strip_tmpl(renames[0].get("callee") or "") in ("rename", "std::rename")
    keep_ok = g.projector(atom_eq(is_rn, not raw_rn))
    keep_fail = g.projector(atom_eq(is_rn, raw_rn))
    if comp:
        cs = g.site_of(comp[0])
        a = cs not in g.live(keep_fail)
        b = g.dominated(cs, {rn})
        ck.ob("C10-O1", sitestr(rt, comp[0]), a and b, "compression runs only after a successful rename" if (a and b) else "compression can run although the rename failed (it would compress and delete a stale file of that name)", key="rotate|compress-after-failed-rename")
        from rules.c05 import strip_path_encoding
        arg = deref_local(rt, comp[0]["args"][0])
        dst = strip_path_encoding(rt, renames[0]["args"][1])
        okarg = arg.get("id") == dst.get("id")
        ck.ob("C10-O1", sitestr(rt, comp[0]), okarg, "the file that is compressed is the rename target" if okarg else "compressFile(%s) but the rename target is %s" % (describe(arg), describe(dst)), key="rotate|compress-other-file")
    if clean:
        ks = g.site_of(clean[0])
        okc = g.dominated(ks, {rn}) and not g.can_reach(ks, rn) and (not comp or not g.can_reach(ks, g.site_of(comp[0])))
        ck.ob("C10-O1", sitestr(rt, clean[0]), okc, "retention runs after the rename (and after compression)" if okc else "retention deletes files before the new rotated file exists", key="rotate|cleanup-before-rename")
    osites = set(g.sites_of_nodes(opens))
    for nm, keep in (("the rename succeeded", keep_ok), ("the rename failed", keep_fail)):
        ok = g.postdominated(cl, osites, keep=keep)
        ck.ob("C10-O1", sitestr(rt, opens[0]), ok, "when %s the active file is reopened on every path" % nm if ok else "when %s a path leaves the active file closed" % nm, key="rotate|no-reopen|%s" % nm.split()[-1])
    ok = all(g.dominated(o, {rn}) or not g.can_reach(o, rn) for o in osites) and not any(g.can_reach(o, rn) for o in osites)
    ck.ob("C10-O1", sitestr(rt, opens[0]), ok, "the reopen follows the rename (it creates the new active file)" if ok else "the active name is reopened before the rename", key="rotate|reopen-before-rename")
