"""C03 — asynchronous hand-off preserves content and order (DESIGN.md section 3, C03)."""
from engine.util import *
from engine.locks import LockFlow

LEVEL = "other"
MIN_OBLIGATIONS = 30
THOROUGH_CONFIGS = ("headeronly",)
TECHNIQUE = "constructor-coverage rule on the LogMessage copy constructor (every member from the same-named source member, re-homed pointers, null preserved), CFG rules on OwnThreadHandler::process / Worker::customEvent projected on m_worker, lockset at postEvent, event-priority and who-may-call rules; ambient-sampling rule on the const accessors of LogMessage (captured state only); no container keyed by a raw pointer into message storage in code the worker runs; every hand-off primitive is explicitly queued; no loop or waiting call in the asynchronous logging call; who-may-call rule on resetOwnThread() inside the library (destructor and quit hook only); the sink adapter sends every message once (must-pass rule shared with C01); LogMessage registered as a meta-type under the name the queued signal asks for"
LEVEL_TEXT = ("Decides the structure of the hand-off for all message contents and schedules: the deep copy initialises every member from the source (a missing member would silently be re-sampled on the worker), "
              "the three source-location pointers are re-homed into owned buffers and stay null when the source is null, the event owns a copy by value, with a worker the logging call only counts and posts "
              "(never runs a handler), posting happens under the handler mutex with default priority and a single event type (so Qt's FIFO queue order = lock order), each event runs the wrapped handler "
              "exactly once on the worker and then decrements the pending count, and the worker object is moved to the thread before it starts.")
LEVEL_NOTE = "trusts Qt's posted-event queue (FIFO per receiver for equal priority), QObject::moveToThread, QMutexLocker; worker speed and real-time ordering between producers are not decided"
DESIGN_REF = "DESIGN.md section 3, C03"
EXPLANATION = ("Member-wise coverage of LogMessage(const LogMessage&) against the class's field table; def-use of the QMessageLogContext arguments under both values of each source pointer; "
               "path/lockset rules in every instantiation of OwnThreadHandler<B>::process and Worker::customEvent; enumeration of postEvent/sendEvent calls and of writers of m_pendingCount.")
TRUSTED = ["QCoreApplication::postEvent queues events FIFO per receiver for equal priority and delivers them on the receiver's thread", "QByteArray(const char*) deep-copies; QByteArray(nullptr) is null"]
ASSUMPTIONS = ["the caller's buffers may be freed right after the logging call returns"]
NOT_DECIDED = ["real-time ordering between producers beyond the lock argument", "worker speed / bursts (queue growth)"]

LM = "QtLogger::LogMessage"
OT = "QtLogger::OwnThreadHandler"


def is_container_type_name(n):
    """`wait`/`acquire` spelled on something that is not a synchronisation object"""
    c = n.get("callee") or ""
    return c.startswith(("QString::", "QByteArray::", "QList<", "QVector<", "QHash<", "QMap<"))


def run(ck):
    F = ck.facts
    from rules.oth import resolve_roles
    ck.notes.append("OwnThreadHandler fields by role: %s" % resolve_roles(F))
    ck.rule("C03-O1", "LogMessage copy constructor: every data member is initialised from the same-named member of the source; file/function/category are copied into owned byte arrays and the new context points into them")
    ck.rule("C03-O2", "the event stores a LogMessage by value, copy-initialised from the message passed to process(); process posts new LogEvent(its argument)")
    ck.rule("C03-O3", "with a worker, process() runs no handler: it only counts the message as pending and posts the event")
    ck.rule("C03-O4", "FIFO: postEvent with default priority, under the handler mutex, one event type, no sendEvent; customEvent runs the wrapped handler exactly once per LogEvent")
    ck.rule("C03-O5", "pending accounting: increment before post; decrement after the handler ran; no other writer")
    ck.rule("C03-O6", "the worker is created without a parent and moved to the thread before the thread starts")
    ck.rule("C03-O7", "a null source-location pointer stays null in the copy")
    copy_ctor(ck)
    captured_state(ck)
    formatters_render_captured_state(ck)
    no_pointer_identity(ck)
    only_stop_paths_stop(ck)
    ck.rule("C03-O12", "what the logger thread delivers reaches every sink: the Sink adapter runs send() exactly once per message on every path - no re-entrancy guard, rate limit or "
                       "'busy' flag that drops a message handed over while an earlier send() is still running (a sink that spins an event loop inside send() gets the queued hand-off "
                       "events delivered there)")
    from rules.c01 import adapters
    adapters(ck, only_sink_rid="C03-O12")
    ck.rule("C03-O13", "a message that leaves the logger thread through a queued signal arrives: LogMessage is a registered meta-type under the name the signal's parameter carries")
    from rules.oth import metatype_registered
    metatype_registered(ck, F, "C03-O13")
    for inst in sorted([F.flat(f) for f in F.fn_all(OT + "::process") if f.d.get("inst")], key=lambda f: f.name):
        handoff(ck, inst)
    ck.require(len([f for f in F.fn_all(OT + "::process") if f.d.get("inst")]) >= 2, "OwnThreadHandler instantiations not found")


AMBIENT = ("QThread::currentThread", "QThread::currentThreadId", "QDateTime::currentDateTime", "QDateTime::currentDateTimeUtc", "QDateTime::currentMSecsSinceEpoch",
           "QDateTime::currentSecsSinceEpoch", "QTime::currentTime", "QDate::currentDate", "std::chrono::steady_clock::now", "std::chrono::system_clock::now",
           "std::chrono::high_resolution_clock::now", "std::chrono::_V2::steady_clock::now", "std::chrono::_V2::system_clock::now", "QCoreApplication::applicationPid",
           "gettid", "pthread_self", "time", "clock_gettime", "gettimeofday", "std::this_thread::get_id")


def captured_state(ck):
    """what a handler reads from a message on the worker thread must be what was captured when the message was created on the
    producer's thread: the read accessors of LogMessage may not sample the thread or the clock themselves"""
    F = ck.facts
    ck.rule("C03-O8", "the const accessors of LogMessage return captured state: thread id, time stamps are sampled in member initialisers / constructors only, never in a getter "
                      "(a getter runs on the worker thread, later)")
    rec = F.records.get(LM) or {}
    is_amb = lambda n: n.get("k") == "call" and any(strip_tmpl(n.get("callee") or "").replace("_V2::", "") == a.replace("_V2::", "") for a in AMBIENT)
    sampled = [f_["name"] for f_ in rec.get("fields", []) if isinstance(f_.get("init"), dict) and any(is_amb(x) for x in walk(f_["init"]))]
    for c in F.fns.values():
        if c.cls == LM and c.d.get("kind") == "ctor":
            for i in c.inits:
                if isinstance(i.get("e"), dict) and any(is_amb(x) for x in walk(i["e"])) and (i.get("member") or i.get("field")):
                    sampled.append((i.get("member") or i.get("field")).split("::")[-1])
    ck.require(len(set(sampled)) >= 3, "fewer than 3 LogMessage members are sampled from the thread / clock at construction (time, steady time, thread id were confirmed by hand): %s" % sorted(set(sampled)))
    getters = sorted([f for f in F.fns.values() if f.cls == LM and f.d.get("kind") == "method" and f.d.get("constm") and f.body is not None], key=lambda f: f.sig)
    ck.require(len(getters) >= 12, "only %d const accessors of LogMessage found (17 confirmed by hand)" % len(getters))
    seen = set()
    for gfn in getters:
        ck.touch(gfn)
        # transitively through repository callees
        stack, visited = [gfn], set()
        bad = None
        while stack and bad is None:
            f = stack.pop()
            if f.id in visited:
                continue
            visited.add(f.id)
            for n in sorted(f.all_nodes(), key=lambda n: n["id"]):
                if is_amb(n):
                    bad = (f, n)
                    break
                if n.get("k") == "call" and n.get("fn") in F.fns and F.fns[n["fn"]].body is not None and len(visited) < 30:
                    stack.append(F.fns[n["fn"]])
        short = gfn.name.split("::")[-1]
        if short in seen:
            continue
        seen.add(short)
        ck.ob("C03-O8", sitestr(gfn) if bad is None else sitestr(bad[0], bad[1]), bad is None, "%s() returns captured state" % short if bad is None else
              "%s() samples %s when it is called: behind the asynchronous hand-off that is the logger thread / a later moment, not the originator's" % (short, (bad[1].get("callee") or "").split("(")[0]),
              key="LogMessage::%s|ambient" % short)


CLOCKS = tuple(a for a in AMBIENT if a != "QCoreApplication::applicationPid") + ("QElapsedTimer::elapsed", "QElapsedTimer::nsecsElapsed", "QElapsedTimer::restart", "QElapsedTimer::msecsSinceReference",
                                                                                   "QElapsedTimer::msecsTo", "QElapsedTimer::secsTo", "QDeadlineTimer::current", "QDeadlineTimer::remainingTime", "clock", "std::clock")


def formatters_render_captured_state(ck):
    """a formatter runs on the logger thread, after the hand-off: whatever time or thread it prints must come from the message, never from a clock or the
    current thread read while formatting"""
    F = ck.facts
    ck.rule("C03-O10", "code reachable from a Formatter's format() samples neither a clock nor the current thread: the time and thread a record shows are the ones captured when the message was created")
    subs = F.subclasses("QtLogger::Formatter") | {"QtLogger::Formatter"}
    roots = [f for f in F.fns.values() if f.body is not None and strip_tmpl(f.cls or "") in subs and f.name.split("::")[-1] == "format"]
    ck.require(len(roots) >= 4, "only %d Formatter::format implementations found (5 confirmed by hand)" % len(roots))
    reach = F.reachable_from(roots, virtual=True)
    for f in list(F.fns.values()):
        if f.lambda_of in reach:
            reach.add(f.id)
    is_clock = lambda n: n.get("k") == "call" and any(strip_tmpl(n.get("callee") or "").replace("_V2::", "") == a.replace("_V2::", "") for a in CLOCKS)
    bad = []
    n = 0
    for fid in sorted(reach):
        f = F.fns.get(fid)
        if f is None or f.body is None or not in_lib(f.file) or f.cls == LM:
            continue
        n += 1
        ck.touch(f)
        for c in f.all_nodes():
            if is_clock(c):
                bad.append((f, c))
    for f, c in bad[:4]:
        ck.ob("C03-O10", sitestr(f, c), False, "%s reads %s while formatting: behind the asynchronous hand-off that is the logger thread at a later moment - the record shows when (where) it was formatted, "
              "not when (where) it was logged, so a slow sink or a burst changes what the sinks observe" % (strip_tmpl(f.name).replace("QtLogger::", ""), strip_tmpl(c.get("callee") or "")), key="format|ambient")
    ck.ob("C03-O10", "(formatters)", not bad, "%d library functions reachable from the %d format() implementations, none samples a clock or the current thread" % (n, len(roots)), key="format|ambient-summary")


def no_pointer_identity(ck, rid="C03-O9", scope=None):
    """after the hand-off file / function / category live in per-message buffers: their addresses identify nothing (and are
    recycled by the allocator), so nothing in the library may use a `const char *` as a key"""
    import re
    F = ck.facts
    ck.rule(rid, "no container keyed by a raw `const char *` (QHash / QMap / QSet / std::map / std::unordered_map): a memo keyed on the address of a source-location string returns "
                      "another message's entry once the hand-off has re-homed the strings")
    KEYED = re.compile(r"\b(QHash|QMultiHash|QMap|QMultiMap|QSet|QCache|std::map|std::unordered_map|std::set|std::unordered_set)<\s*(?:(?:QPair|std::pair|std::tuple)<\s*)?(const )?char ?(const )?\*")
    hits = []
    # scope: substrings of class / function names the property talks about (None = the whole library). A memo keyed on an address in,
    # say, a formatter does not change the category filter's verdict, so C15 only looks at the filter's own classes
    in_scope = (lambda name: True) if scope is None else (lambda name: any(s_ in (name or "") for s_ in scope))
    for q, rec in F.records.items():
        if "QtLogger" not in q or not in_scope(q):
            continue
        for f_ in rec.get("fields", []):
            if KEYED.search(f_.get("type") or ""):
                hits.append(("%s (field %s::%s)" % ((rec.get("file") or "").split("/src/")[-1], q.split("::")[-1], f_["name"]), f_["type"]))
    n = 0
    for f in F.fns.values():
        if f.body is None or not in_lib(f.file) or not in_scope(f.name):
            continue
        n += 1
        for d in f.find(lambda x: x.get("k") == "decl"):
            for v in d.get("vars", []):
                if KEYED.search(v.get("type") or ""):
                    hits.append((sitestr(f, d), v["type"]))
    for site, t in hits:
        ck.ob(rid, site, False, "%s is keyed by the address of a C string: behind the asynchronous hand-off the strings of different messages share recycled addresses, so a lookup returns another "
              "message's entry" % t[:80], key="pointer-key|%s" % site.split("(")[-1].rstrip(")"))
    if not hits:
        ck.ob(rid, "src/qtlogger", True, "%d functions and the library's classes: no container keyed by a raw const char *" % n, key="pointer-key|none")


def copy_ctor(ck, rid="C03-O1"):
    F = ck.facts
    rec = F.record(LM)
    cc = [f for f in F.fn_all(LM + "::LogMessage") if f.d.get("copyctor")]
    ck.require(len(cc) == 1, "LogMessage copy constructor not found")
    cc = F.flat(cc[0])
    ck.touch(cc)
    src = cc.params[0]["decl"]
    fields = [f["name"] for f in rec["fields"]]
    essential = {"m_context", "m_message", "m_formattedMessage", "m_attributes", "m_time", "m_type"}
    ck.require(essential <= set(fields), "LogMessage no longer has the members %s" % sorted(essential - set(fields)))
    ck.notes.append("LogMessage has %d data members: %s" % (len(fields), fields))
    inits = {i["member"].split("::")[-1]: i for i in cc.inits if i.get("member")}
    ptr = {"m_file": "file", "m_function": "function", "m_category": "category"}
    for fld in fields:
        i = inits.get(fld)
        if i is None or not i.get("written"):
            ck.ob(rid, sitestr(cc), False, "member %s is not initialised by the copy constructor: it takes its default initialiser (re-sampled on the worker thread / empty)" % fld, key="LogMessage(copy)|missing|%s" % fld)
            continue
        e = skip_copies(i["e"])
        if fld in ptr:
            ok = e.get("k") == "construct" and e.get("class") == "QByteArray" and e.get("args") and src_ctx(e["args"][0], src, ptr[fld])
            ck.ob(rid, sitestr(cc, e), ok, "%s owns a copy of the source's %s" % (fld, ptr[fld]) if ok else "%s is initialised from %s" % (fld, describe(e)), key="LogMessage(copy)|source|%s" % fld)
        elif fld == "m_context":
            context_init(ck, cc, e, src, fields, rid)
        else:
            ok = is_field(e, LM + "::" + fld) and is_ref_to(skip_copies(e).get("base"), src)
            # a member of class type built from the source by its own constructor (a struct that groups the owned strings): how it copies is that
            # constructor's business - not decided here, and not a violation
            from_src = not ok and e.get("k") == "construct" and any(x.get("k") == "ref" and x.get("decl") == src for x in walk(e)) and \
                (e.get("class") or "") not in ("QString", "QByteArray", "QDateTime", "QHash", "QVariantHash")
            ck.ob(rid, sitestr(cc, e), True if ok else (None if from_src else False), "%s <- source.%s" % (fld, fld) if ok else "%s is initialised from %s, not from the source's %s" % (fld, describe(e), fld), key="LogMessage(copy)|source|%s" % fld)
    for m in rec["methods"]:
        if m["kind"] in ("movector", "copyassign", "moveassign") and m.get("userProvided"):
            ck.ob(rid, "logmessage.h (%s)" % m["sig"], None, "user-provided %s is not analysed" % m["kind"])


def src_ctx(n, src, what):
    n = skip_copies(n)
    if not (isinstance(n, dict) and n.get("k") == "member" and n.get("name") == "QMessageLogContext::" + what):
        return False
    b = skip_copies(n.get("base"))
    return is_field(b, LM + "::m_context") and is_ref_to(skip_copies(b).get("base"), src)


def context_init(ck, cc, e, src, fields, rid="C03-O1"):
    if not (e.get("k") == "construct" and e.get("class") == "QMessageLogContext" and len(e.get("args", [])) == 4):
        ck.ob(rid, sitestr(cc, e), None, "m_context initialiser %s not recognised" % describe(e))
        return
    a = e["args"]
    okline = src_ctx(a[1], src, "line")
    ck.ob(rid, sitestr(cc, a[1]), okline, "line <- source line" if okline else "line is %s" % describe(a[1]), key="LogMessage(copy)|context|line")
    for idx, (own, what) in ((0, ("m_file", "file")), (2, ("m_function", "function")), (3, ("m_category", "category"))):
        is_srcptr = lambda n, what=what: src_ctx(n, src, what)
        vals = {}
        for nonnull in (True, False):
            leaf = resolve_value(a[idx], atom_eq(is_srcptr, nonnull), cc)
            vals[nonnull] = leaf
        own_ok = lambda leaf: is_call(leaf, ("QByteArray::constData", "QByteArray::data")) and is_this_field(deref_local(cc, skip_copies(leaf).get("obj")), LM + "::" + own)
        dangling = any(src_ctx(v, src, what) for v in vals.values())
        if dangling:
            ck.ob(rid, sitestr(cc, a[idx]), False, "the copy's %s pointer is the source's pointer: it dangles as soon as the caller's buffer is freed" % what, key="LogMessage(copy)|dangling|%s" % what)
            continue
        if own not in fields:
            # the owned buffer may live elsewhere in the object (a member struct held by value): a pointer into a QByteArray that is part of *this* is re-homed
            lf_ = skip_copies(vals[True]) if isinstance(vals[True], dict) else None
            inside = isinstance(lf_, dict) and is_call(lf_, ("QByteArray::constData", "QByteArray::data")) and isinstance(lf_.get("obj"), dict) and \
                skip_copies(lf_["obj"]).get("k") == "member" and is_this_field(skip_copies(lf_["obj"]), strip_tmpl(skip_copies(lf_["obj"]).get("name") or ""))
            ck.ob(rid, sitestr(cc, a[idx]), None if inside else False, "the copy's %s points into %s, a buffer inside the copy that this rule does not follow to its initialiser" % (what, describe(lf_.get("obj"))[:40]) if inside else
                  "the copy has no owned buffer for %s (member %s is gone) and its pointer is %s" % (what, own, describe(vals[True])), key="LogMessage(copy)|rehome|%s" % what)
            continue
        ok1 = own_ok(vals[True])
        ck.ob(rid, sitestr(cc, a[idx]), ok1, "%s points into the copy's own %s" % (what, own) if ok1 else "with a non-null source the copy's %s is %s" % (what, describe(vals[True])), key="LogMessage(copy)|rehome|%s" % what)
        v0 = skip_copies(vals[False])
        ok0 = v0.get("k") == "null_lit"
        ck.ob("C03-O7", sitestr(cc, a[idx]), ok0, "a null %s stays null" % what if ok0 else
              "a null %s becomes %s (QByteArray::constData() is never null): Qt's formatter prints nothing where it prints 'unknown' synchronously" % (what, describe(v0)), key="LogMessage(copy)|null-lost|%s" % what)
        # declaration order: the owned buffer is initialised before m_context
        okord = fields.index(own) < fields.index("m_context")
        ck.ob(rid, "logmessage.h (%s before m_context)" % own, okord, "%s is declared (hence initialised) before m_context" % own if okord else "%s is initialised after m_context uses it" % own, key="LogMessage|order|%s" % own)


def handoff(ck, proc, rid=None):
    R = (lambda x: rid) if rid else (lambda x: x)   # another property claims the same structure under a rule id of its own
    F = ck.facts
    ck.touch(proc)
    cls = proc.cls
    tag = strip_tmpl(cls).split("::")[-1] + "<" + cls.split("<", 1)[1].rstrip(">").split("::")[-1] + ">"
    g = Graph(proc)
    lf = LockFlow(F, proc, g)
    W = OT + "::m_worker"
    isw = lambda n: is_this_field(n, W)
    post = [n for n in proc.calls("QCoreApplication::postEvent")]
    base = [n for n in proc.calls() if n.get("qualified") and name_is(n.get("callee"), "process") and skip_copies(n.get("obj")).get("k") == "this"]
    incs = [n for n in proc.calls() if n.get("ck") == "member" and is_this_field(n.get("obj"), OT + "::m_pendingCount") and name_is(n.get("callee"), ("fetchAndAddOrdered", "fetchAndAddRelaxed", "fetchAndAddAcquire", "fetchAndAddRelease", "ref", "operator++"))]
    if not post:
        # another queued hand-off mechanism: QMetaObject::invokeMethod / QTimer::singleShot / a signal. It only queues when the connection
        # type says so; the default (Qt::AutoConnection) calls the functor directly when the caller already is on the receiver's thread
        inv = [n for n in proc.calls() if strip_tmpl(n.get("callee") or "").endswith(("QMetaObject::invokeMethod", "QTimer::singleShot"))]
        for n in inv:
            en_q = [x for a_ in n.get("args", []) for x in walk(a_) if x.get("k") == "ref" and (x.get("name") or "").endswith(("Qt::QueuedConnection", "Qt::BlockingQueuedConnection"))]
            blocking = any((x.get("name") or "").endswith("BlockingQueuedConnection") for x in en_q)
            if not en_q or blocking:
                ck.ob(R("C03-O3"), sitestr(proc, n), False, "%s: the hand-off uses %s %s: a log call made on the logger's own thread (a sink reporting a write error) runs the whole pipeline inside the sink "
                      "that is busy, ahead of everything queued, with the hand-off mutex held" % (tag, (n.get("callee") or "").split("<")[0], "with Qt::BlockingQueuedConnection (the logging call waits for the sinks)" if blocking else
                      "without Qt::QueuedConnection (Qt::AutoConnection calls directly when caller and receiver share a thread)"), key="OwnThreadHandler::process|not-queued")
    ck.require(len(post) == 1, "%s::process posts %d events" % (tag, len(post)))
    p = post[0]
    ps = g.site_of(p)
    keep_w = g.projector(atom_eq(isw, True))
    live_w = g.live(keep_w)
    # O3
    ran = [n for n in base if g.site_of(n) in live_w]
    other_runs = [n for n in proc.calls() if n.get("virtual") and name_is(n.get("callee"), "QtLogger::Handler::process") and g.site_of(n) in live_w]
    ck.ob(R("C03-O3"), sitestr(proc), not ran and not other_runs, "%s: with a worker no handler runs in the logging call" % tag if not (ran or other_runs) else
          "%s: with a worker the logging call still runs %s synchronously (blocks on the sinks, and the message is delivered twice)" % (tag, describe((ran + other_runs)[0])), key="OwnThreadHandler::process|runs-handler-async")
    # "the logging call never blocks on a sink": with a worker the call neither loops nor sleeps / waits — a producer that is made to wait
    # for the backlog to shrink waits for the sinks (and, holding the logger's mutex, makes every other producer wait too)
    WAITS = ("msleep", "usleep", "sleep", "sleep_for", "sleep_until", "wait", "acquire", "tryAcquire", "waitForFinished", "processEvents", "yieldCurrentThread", "yield", "exec")
    loops_w = [l for l in find_loops(proc) if (g.site_of(l.get("cond")) if isinstance(l.get("cond"), dict) else None) in live_w or any(g.site_of(x) in live_w for x in walk(l.get("body") or {}) if g.site_of(x) is not None)]
    waits_w = [n for n in proc.calls() if (n.get("callee") or "").split("::")[-1] in WAITS and g.site_of(n) in live_w and not is_container_type_name(n)]
    blk = loops_w or waits_w
    ck.ob(R("C03-O3"), sitestr(proc, (loops_w + waits_w)[0]) if blk else sitestr(proc), not blk, "%s: with a worker the logging call contains no loop and no sleeping or waiting call" % tag if not blk else
          "%s: with a worker the logging call %s: a producer ahead of the sinks is made to wait for them (back-pressure), which is exactly what asynchronous mode promises not to do" %
          (tag, "loops (%s)" % describe(loops_w[0].get("cond"))[:60] if loops_w else "calls %s" % describe(waits_w[0])[:40]), key="OwnThreadHandler::process|blocks-async")
    okp = g.must_pass({ps}, keep=keep_w) and not g.in_cycle(ps)
    ck.ob(R("C03-O3"), sitestr(proc, p), okp, "%s: with a worker exactly one event is posted on every path" % tag if okp else "%s: with a worker the post is conditional or repeated" % tag, key="OwnThreadHandler::process|post-conditional")
    # O2
    a = p.get("args", [])
    recv = skip_copies(a[0]) if a else None
    okr = is_this_field(recv, W)
    ck.ob(R("C03-O4"), sitestr(proc, p), okr, "%s: the event goes to the worker object" % tag if okr else "%s: the event is posted to %s" % (tag, describe(recv)), key="OwnThreadHandler::process|receiver")
    ev = skip_copies(deref_local(proc, a[1])) if len(a) > 1 else None
    okev = isinstance(ev, dict) and ev.get("k") == "new" and isinstance(ev.get("init"), dict) and skip_copies(ev["init"]).get("k") == "construct" and arg_is_param(skip_copies(ev["init"]), 0, proc, 0) \
        and "LogEvent" in (ev.get("alloc") or "")
    ck.ob(R("C03-O2"), sitestr(proc, p), okev, "%s: posts new LogEvent(lmsg) built from the message being logged" % tag if okev else "%s: posts %s" % (tag, describe(ev)), key="OwnThreadHandler::process|event")
    if okev:
        ector = F.fns.get(skip_copies(ev["init"]).get("fn"))
        if ector is None:
            ck.ob(R("C03-O2"), sitestr(proc, p), None, "LogEvent constructor body not found")
        else:
            ck.touch(ector)
            erec = F.record(ector.cls)
            fld = [f for f in erec["fields"] if f["type"] in (LM, "const " + LM)]
            byval = len(fld) == 1
            ck.ob(R("C03-O2"), sitestr(ector), byval, "LogEvent holds a LogMessage by value" if byval else "LogEvent holds %s (a reference or pointer would dangle after the call returns)" % [f["type"] for f in erec["fields"]],
                  key="LogEvent|not-by-value")
            if byval:
                ii = [i for i in ector.inits if i.get("member", "").endswith("::" + fld[0]["name"])]
                e = skip_copies(ii[0]["e"]) if ii else None
                inner = e
                if isinstance(e, dict) and e.get("k") == "construct" and e.get("copy") is False and e.get("args"):
                    inner = skip_copies(e["args"][0])
                ok = bool(ii) and ii[0].get("written") and is_ref_to(inner if inner is not None else {}, ector.params[0]["decl"])
                ck.ob(R("C03-O2"), sitestr(ector), ok, "the stored message is copy-constructed from the constructor argument" if ok else "the stored message is initialised from %s" % describe(e), key="LogEvent|init")
    # O4
    pr = a[2] if len(a) > 2 else None
    okpr = pr is None or pr.get("k") == "defaultarg" or const_int(pr) == 0
    ck.ob(R("C03-O4"), sitestr(proc, p), okpr, "%s: default event priority (FIFO with all other log events)" % tag if okpr else "%s: event priority %s overtakes earlier messages" % (tag, describe(pr)), key="OwnThreadHandler::process|priority")
    held = lf.held_at(p, OT + "::m_mutex")
    ck.ob(R("C03-O4"), sitestr(proc, p), held, "%s: posted while holding the handler mutex (posting order = lock order)" % tag if held else "%s: posted without the handler mutex held on every path" % tag, key="OwnThreadHandler::process|post-unlocked")
    # O5 producer side
    if len(incs) != 1:
        ck.ob(R("C03-O5"), sitestr(proc), False if not incs else None, "%s: pending count incremented at %d sites" % (tag, len(incs)), key="OwnThreadHandler::process|increment")
    else:
        i = incs[0]
        one = const_int(i["args"][0]) == 1 if i.get("args") else True
        ok = g.dominated(ps, {g.site_of(i)}) and one and g.site_of(i) in live_w and g.site_of(i) not in g.live(g.projector(atom_eq(isw, False)))
        ck.ob(R("C03-O5"), sitestr(proc, i), ok, "%s: pending += 1 before the post, only on the asynchronous branch" % tag if ok else "%s: increment does not precede the post exactly on the asynchronous branch" % tag, key="OwnThreadHandler::process|increment")
    # consumer side
    ce = [F.flat(f) for f in F.fns.values() if f.cls and f.cls.startswith(cls + "::Worker") and f.name.endswith("::customEvent")]
    ck.require(len(ce) == 1, "%s: Worker::customEvent not found" % tag)
    ce = ce[0]
    ck.touch(ce)
    gc = Graph(ce)
    run = [n for n in ce.calls() if n.get("qualified") and name_is(n.get("callee"), "process")]
    dec = [n for n in ce.calls() if n.get("ck") == "member" and name_is(n.get("callee"), ("fetchAndSubOrdered", "fetchAndSubRelaxed", "fetchAndSubRelease", "fetchAndSubAcquire", "deref", "operator--")) and is_field(n.get("obj"), OT + "::m_pendingCount")]
    edecl = ce.params[0]["decl"]
    casts = [v for n in ce.find(lambda n: n.get("k") == "decl") for v in n.get("vars", []) if isinstance(v.get("init"), dict) and skip_copies(v["init"]).get("k") == "cast" and is_ref_to(skip_copies(v["init"]).get("e"), edecl)]

    def ev_atom(match):
        def atom(n):
            if n.get("k") == "binop" and n.get("op") in ("==", "!=") and any(is_call(x, "QEvent::type") for x in (n.get("lhs"), n.get("rhs"))):
                return match if n["op"] == "==" else (not match)
            if casts and n.get("k") == "ref" and n.get("decl") == casts[0]["decl"]:
                return match
            return None
        return atom
    if len(run) != 1:
        ck.ob(R("C03-O4"), sitestr(ce), False, "%s: customEvent runs the wrapped handler at %d sites" % (tag, len(run)), key="Worker::customEvent|run-count")
    else:
        r = run[0]
        rs_ = gc.site_of(r)
        keep = gc.projector(ev_atom(True))
        ok = gc.must_pass({rs_}, keep=keep) and not gc.in_cycle(rs_) and rs_ not in gc.live(gc.projector(ev_atom(False)))
        ck.ob(R("C03-O4"), sitestr(ce, r), ok, "%s: a LogEvent runs the wrapped handler exactly once; other events do not" % tag if ok else "%s: the handler run in customEvent is conditional/repeated" % tag, key="Worker::customEvent|run")
        m = skip_copies(deref_local(ce, r["args"][0])) if r.get("args") else None
        okm = isinstance(m, dict) and m.get("k") == "member" and is_field(m, OT + "::LogEvent::lmsg") and casts and is_ref_to(unwrap_ptr(m.get("base")), casts[0]["decl"])
        ck.ob(R("C03-O4"), sitestr(ce, r), bool(okm), "%s: the handler gets the event's own message" % tag if okm else "%s: the handler gets %s" % (tag, describe(m)), key="Worker::customEvent|message")
        tgt = F.fns.get(r.get("fn"))
        okt = tgt is not None and not strip_tmpl(tgt.name).startswith(OT + "::")
        ck.ob(R("C03-O4"), sitestr(ce, r), okt, "%s: the run is the wrapped BaseHandler::process (not the posting wrapper)" % tag if okt else "%s: customEvent calls %s" % (tag, r.get("callee")), key="Worker::customEvent|target")
        if len(dec) != 1:
            ck.ob(R("C03-O5"), sitestr(ce), False if not dec else None, "%s: pending count decremented at %d sites" % (tag, len(dec)), key="Worker::customEvent|decrement")
        else:
            ds = gc.site_of(dec[0])
            ok = gc.postdominated(rs_, {ds}) and gc.dominated(ds, {rs_}) and not gc.in_cycle(ds)
            ck.ob(R("C03-O5"), sitestr(ce, dec[0]), ok, "%s: pending -= 1 exactly once after each handler run" % tag if ok else "%s: the decrement does not follow every handler run exactly once" % tag, key="Worker::customEvent|decrement")
    from rules.oth import worker_runs_unlocked, worker_cleared_after_stop
    worker_runs_unlocked(ck, cls, tag, R("C03-O3"))
    from rules.oth import creation_is_atomic
    creation_is_atomic(ck, cls, tag, R("C03-O6"))
    worker_cleared_after_stop(ck, cls, tag, R("C03-O4"))
    # single event type, no sendEvent
    members = F.units_of(lambda f: bool(f.cls) and f.cls.startswith(cls))
    for f in members:
        if True:
            for n in f.calls(("QCoreApplication::sendEvent", "QCoreApplication::sendPostedEvents", "QCoreApplication::processEvents")):
                ck.ob(R("C03-O4"), sitestr(f, n), False, "%s bypasses the posted-event queue" % describe(n)[:60], key="OwnThreadHandler|%s" % n.get("callee").split("::")[-1])
    # writers of m_pendingCount inside this instantiation
    inc_pos = {(x.get("l"), x.get("c")) for x in incs} | {(x.get("l"), x.get("c")) for x in dec}
    for f in members:
        if True:
            for n in f.calls():
                if (n.get("l"), n.get("c")) in inc_pos:
                    continue
                if n.get("ck") == "member" and is_field(n.get("obj"), OT + "::m_pendingCount") and n.get("constm") is False and n not in incs and n not in dec:
                    ck.ob(R("C03-O5"), sitestr(f, n), False, "pending count also modified by %s" % describe(n), key="m_pendingCount|writer|%s" % strip_tmpl(f.name).split("::")[-1])
    # O6
    mv = [F.flat(f) for f in F.fn_all(OT + "::moveToOwnThread") if f.cls == cls]
    ck.require(len(mv) == 1, "%s: moveToOwnThread not found" % tag)
    mv = mv[0]
    ck.touch(mv)
    gm = Graph(mv)
    mtt = [n for n in mv.calls("QObject::moveToThread") if is_this_field(unwrap_ptr(n.get("obj")), W)]
    st = [n for n in mv.calls("QThread::start")]
    ok = len(mtt) == 1 and len(st) == 1 and gm.dominated(gm.site_of(st[0]), {gm.site_of(mtt[0])})
    ck.ob(R("C03-O6"), sitestr(mv), ok, "%s: the worker is moved to the thread before the thread starts" % tag if ok else "%s: worker moved %d times / thread started %d times, or in the wrong order" % (tag, len(mtt), len(st)), key="moveToOwnThread|move-before-start")
    if mtt:
        tgt = skip_copies(mtt[0]["args"][0])
        okt = any(is_this_field(x, OT + "::m_thread") for x in walk(tgt))
        t0 = skip_copies(deref_local(mv, tgt))
        if not okt and isinstance(t0, dict) and any(is_this_field(x, OT + "::m_thread") for x in walk(t0)):
            okt = True       # a helper's parameter bound to m_thread at the (spliced) call
        if not okt and isinstance(tgt, dict) and tgt.get("k") == "ref" and tgt.get("dk") in ("local", "param"):
            # a local that is also what m_thread is set to (`auto thread = new QThread; m_thread = thread;`), through helper parameters
            chain = [skip_copies(tgt)]
            for _ in range(4):
                _, var_ = local_var(mv, chain[-1].get("decl"))
                nxt = skip_copies(var_.get("init")) if var_ and isinstance(var_.get("init"), dict) else None
                if isinstance(nxt, dict) and nxt.get("k") == "ref" and nxt.get("dk") == "local" and nxt.get("decl") != chain[-1].get("decl"):
                    chain.append(nxt)
                else:
                    break
            for src in chain:
                okt = okt or any(is_this_field(a_.get("lhs") if a_.get("k") == "binop" else (a_.get("args") or [None])[0], OT + "::m_thread") and
                          is_ref_to(a_.get("rhs") if a_.get("k") == "binop" else (a_.get("args") or [None, None])[1], src["decl"])
                          for a_ in mv.find(lambda n: (n.get("k") == "binop" and n.get("op") == "=") or (n.get("k") == "call" and n.get("op") == "=")))
        elif not okt and isinstance(t0, dict):
            okt = any(is_this_field(x, OT + "::m_thread") for x in walk(t0))
        ck.ob(R("C03-O6"), sitestr(mv, mtt[0]), okt, "%s: the worker lives on the logger's own thread" % tag if okt else "%s: the worker is moved to %s" % (tag, describe(tgt)), key="moveToOwnThread|thread")
    wc = [f for f in F.fns.values() if f.cls and f.cls.startswith(cls + "::Worker") and f.d.get("kind") == "ctor" and not f.d.get("copyctor") and not f.d.get("movector")]
    if wc:
        bi = [i for i in wc[0].inits if i.get("base") == "QObject"]
        e = skip_copies(bi[0]["e"]) if bi else None
        noparent = e is None or (e.get("k") == "construct" and (not e.get("args") or all(x.get("k") == "defaultarg" or skip_copies(x).get("k") == "null_lit" for x in e["args"])))
        ck.ob(R("C03-O6"), sitestr(wc[0]), noparent, "%s: the worker has no parent (a parented object cannot be moved to another thread)" % tag if noparent else "%s: the worker is constructed with a parent" % tag, key="Worker|parent")


def only_stop_paths_stop(ck, rid="C03-O11", why=None):
    """C03-O11: a running asynchronous handler is switched back to synchronous processing only by the three stop paths the property knows (the
    destructor, the application-quit hook, the user's own resetOwnThread() call). Library code that stops and restarts the logger thread for a
    purpose of its own (a flush, a reconfiguration) opens a window in which log calls of other threads run the whole pipeline - sinks included -
    in the calling thread."""
    F = ck.facts
    ck.rule(rid, "inside the library resetOwnThread() is called only from the destructor of OwnThreadHandler and from the aboutToQuit hook installed by moveToOwnThread()")
    calls = F.callers_of(lambda n: n.get("k") == "call" and strip_tmpl(n.get("callee") or "").endswith("OwnThreadHandler::resetOwnThread"))
    n_ok = 0
    seen = set()
    for f, n in calls:
        if not in_lib(f.file):
            continue
        owner = F.fns.get(f.lambda_of) if f.lambda_of else None
        host = owner or f
        short = strip_tmpl(host.name).replace("QtLogger::", "")
        # the quit hook by role, not by the name of the function that installs it: the lambda (or a private method it only forwards to) is an
        # argument of a connect() whose signal is QCoreApplication::aboutToQuit
        def is_quit_hook(lam_fn):
            if lam_fn is None or owner is None:
                return False
            for c_ in owner.calls():
                if strip_tmpl(c_.get("callee") or "").split("::")[-1] != "connect":
                    continue
                sig_ = any(x.get("k") in ("ref", "member", "unop") and "aboutToQuit" in ((x.get("name") or "") + describe(x)) for a_ in c_.get("args", []) for x in walk(a_))
                fun_ = any(x.get("k") == "lambda" and x.get("fn") == lam_fn.id for a_ in c_.get("args", []) for x in walk(a_))
                if sig_ and fun_:
                    return True
            return False
        ok = (host.d.get("kind") == "dtor" and strip_tmpl(host.cls or "") == "QtLogger::OwnThreadHandler") or is_quit_hook(f if owner is not None else None)
        key = (short, ok)
        if ok:
            n_ok += 1
            continue
        if key in seen:
            continue
        seen.add(key)
        ck.ob(rid, sitestr(f, n), False, "%s stops the logger thread for a purpose of its own: until it is started again every log call of another thread finds the handler synchronous and runs the "
              "pipeline, sinks included, inside the logging call" % short, key="stop-path|%s" % short)
    ck.require(n_ok >= 2, "the two sanctioned stop paths (destructor, aboutToQuit hook) were not both found (%d)" % n_ok)
    ck.ob(rid, "src/qtlogger/ownthreadhandler.h (OwnThreadHandler)", True, "%d call sites of resetOwnThread() in the library, all in the destructor or in the functor connected to QCoreApplication::aboutToQuit" % n_ok, key="stop-path|sanctioned")
