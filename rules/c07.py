"""C07 — no file outgrows the limit; records are never split (DESIGN.md section 3, C07)."""
import itertools

from engine.util import *
from rules.rfs import *

LEVEL = "other"
MIN_OBLIGATIONS = 7
THOROUGH_CONFIGS = ("headeronly",)
TECHNIQUE = "linear normal form of the rotation inequality + exhaustive evaluation of the extracted guard on an integer grid containing every boundary; def-use provenance of the measured size and of the record length; single-write rule; measured-equals-written rule on the write site (record framing), shared max+1 index rule; writer/reader name-scheme agreement and single-pass .arg() rule shared with C09; the rename source is the open file's name; stale-size rule (no size read before a possible rotation is used after it); no narrowing of the 64-bit file size; size limit followed from the constructors into the member by cases; the grid demands must-reach of rotate() under (current, length, limit, count), a guard on other member state set by the rotation itself is definite; the scanned index for the name's date is what the rotated name gets (value-identity rule shared with C09); the INI front-end hands the limits to the sink as read (shared with C19)"
LEVEL_TEXT = ("Decides the size inequality for all record sizes and limits: the guards of checkSizeRotation are unit-coefficient linear comparisons over (current size, added size, limit), so "
              "evaluating the extracted guard on a grid that contains every boundary is exact; the rotation must fire whenever current > 0 and current + length + 1 > L (a more eager rotation is accepted). "
              "The current size must be the open file object's size() (which counts buffered bytes), the added size the encoded length plus at least the newline, and a record is one write. "
              "Actual file sizes over histories are run-time.")
LEVEL_NOTE = "trusts QFileDevice::size() (flushes its write buffer first) and the encoding length = bytes written in a UTF-8 locale"
DESIGN_REF = "DESIGN.md section 3, C07"
EXPLANATION = ("Rules over rotateIfNeeded() and checkSizeRotation(): linear forms of every comparison (coefficients in {-1,0,1}, |constant| <= 3 is required, else undecidable), then for "
               "current in 0..7, length in 0..6, limit in 1..10 the reachability of rotate() under that assignment is compared with the required predicate.")
TRUSTED = ["QFileDevice::size() of an open buffered file includes unflushed bytes", "toUtf8().size() equals the number of bytes toLocal8Bit() produces in a UTF-8 locale and over-estimates it in single-byte locales"]
ASSUMPTIONS = ["UTF-8 or single-byte locale (a multi-byte non-UTF-8 locale is outside the property's quantifier)"]
NOT_DECIDED = ["actual sizes of files over concrete histories", "the toUtf8/toLocal8Bit mismatch in multi-byte non-UTF-8 locales (reported, not armed)"]


def run(ck):
    S = Sink(ck)
    F = ck.facts
    ck.rule("C07-O1", "rotation fires whenever current > 0 and current + length + 1 > L (length = encoded record length); the added size counts at least the terminating newline")
    ck.rule("C07-O2", "the current size is size() of the open active file object, not a directory lookup or a position")
    ck.rule("C07-O3", "with L >= 1 every send evaluates the size check before the (single) write of the record")
    ck.rule("C07-O4", "a size rotation can always move the full file away: the rotated name is new (next index = 1 + maximum over every existing entry), else the rename fails and the active file keeps growing")
    ck.rule("C07-O8", "the size limit given to the constructor is the limit the size check uses: it reaches the private object's member unchanged (evaluated by cases)")
    from rules.rfs import limits_intact
    limits_intact(ck, S, "C07-O8", "size")
    from rules.c09 import next_index, name_scheme
    next_index(ck, S, "C07-O4")
    from rules.c19 import share_ini_obligation
    share_ini_obligation(ck, "C07-O9", "ini|arg|RotatingFileSink", "configure(settings): max_file_size and max_file_count are handed to RotatingFileSink as read (a count of 0 = 'keep everything' turned into "
                         "1 = 'never rotate' lets the active file collect every record)")
    from rules.c09 import index_feeds_name
    index_feeds_name(ck, S, "C07-O4")   # ... and that result, for the date of the name, is what the name gets (a refused rename leaves the active file growing)
    name_scheme(ck, S, "C07-O4")      # ... and the scan sees the names the writer produces
    # ... over a listing that leaves no rotated file out (anchored, escaped pattern; no wildcard name filter built from the file name)
    from rules.c06 import name_pattern
    name_pattern(ck, S, S.m["findNextIndexForDate"], "C07-O4", date_is_class=False)
    # ... and what is moved away is the file the sink writes to (its own name, placeholders expanded), under the generated name
    from rules.c05 import allowed_destructive
    rt_ = S.m["rotate"]
    for n_ in [x for x in rt_.calls() if destructive_kind(x) == "rename"]:
        ok_, why_ = allowed_destructive(S, rt_, n_, "rename")
        ck.ob("C07-O4", sitestr(rt_, n_), ok_, "rotate() moves the active file itself to the generated name" if ok_ else
              "rotate() renames %s: when that is not the file the sink writes to (a path with %%{time} placeholders is expanded by FileSink) nothing is moved away and the active file keeps growing" % why_,
              key="rotate|rename-source")
    cs = S.m["checkSizeRotation"]
    ri = S.m["rotateIfNeeded"]
    g = S.g(cs)
    LF = RP + "::m_maxFileSize"
    rot = [n for n in S.calls_to(cs, "rotate")]
    ck.require(len(rot) == 1, "checkSizeRotation calls rotate() %d times" % len(rot))
    rsite = g.site_of(rot[0])
    # the current-size local
    cur_locals = []
    for n in cs.find(lambda n: n.get("k") == "decl"):
        for v in n.get("vars", []):
            if isinstance(v.get("init"), dict) and any(is_call(x, ("size", "pos", "bytesAvailable")) and strip_tmpl(x.get("cls") or "") not in ("QByteArray", "QString", "QStringView", "QList", "QVector", "QStringList")
                                                       for x in walk(v["init"])):
                cur_locals.append((v, n))

    counter = {}

    def is_cur(n):
        if n.get("k") == "ref" and any(n.get("decl") == v["decl"] for v, _ in cur_locals):
            return True
        # a size counter kept in a member (instead of asking the file): decided by the counter protocol below
        m = skip_copies(n)
        if not cur_locals and isinstance(m, dict) and m.get("k") == "member" and m.get("dk") == "field" and skip_copies(m.get("base")).get("k") == "this" \
                and strip_tmpl(m.get("name", "")).startswith(RP + "::") and strip_tmpl(m["name"]) != LF and (m.get("type") or "").replace("const ", "") in ("int", "qint64", "long long", "long", "qsizetype"):
            counter.setdefault(strip_tmpl(m["name"]), m)
            return True
        return is_call(n, ("QFileDevice::size", "QFile::size", "QIODevice::size")) and S.is_active_file(skip_copies(n).get("obj"))

    # the size check either receives the added size as an integer (computed by its caller) or the message itself
    by_message = not (cs.params and (cs.params[0].get("type") or "").replace("const ", "").strip() in ("int", "qint64", "long long", "long", "qsizetype", "unsigned int", "size_t"))
    adddecl = cs.params[0]["decl"] if cs.params else None

    def enc_len(n, fn):
        """encoded length of the record: <fn's message parameter>.formattedMessage().toUtf8().size()"""
        if is_call(n, ("QByteArray::size", "QByteArray::length", "QByteArray::count")):
            o = skip_copies(deref_local(fn, skip_copies(n).get("obj")))
            if is_call(o, ("QString::toUtf8", "QString::toLocal8Bit")) and is_call(o.get("obj"), LM + "::formattedMessage") and obj_is_param(skip_copies(o["obj"]), fn, 0):
                return True
        return False

    def sym(n):
        if is_cur(n):
            return "cur"
        if not by_message and is_ref_to(n, adddecl):
            return "add"
        if by_message and enc_len(n, cs):
            return "len"
        if is_this_field(n, LF):
            return "L"
        return None
    conds = []
    for b in g.blocks.values():
        if b.get("cond") is not None:
            c = cs.nodes.get(b["cond"])
            if c is not None:
                conds.extend(comparisons_in(c))
    conds = list({c["id"]: c for c in conds}.values())
    ck.require(conds, "no comparison found in checkSizeRotation")
    exact = True
    for c in conds:
        cf = comparison_form(c, sym, cs)
        if cf is None or any(abs(v) > 1 for k, v in cf[0].items() if k) or abs(cf[0].get("", 0)) > 3:
            exact = False
            ck.ob("C07-O1", sitestr(cs, c), None, "comparison %s is not a unit-coefficient linear form over (current, added, limit); the grid evaluation would not be exact" % describe(c))
    if not exact:
        return
    ck.ob("C07-O1", sitestr(cs), True, "%d comparisons, all unit-coefficient linear over (current, added, limit): %s" % (len(conds), [describe(c) for c in conds]))
    # the added size passed by rotateIfNeeded
    gi = S.g(ri)
    calls = [n for n in S.calls_to(ri, "checkSizeRotation")]
    ck.require(len(calls) == 1, "rotateIfNeeded calls checkSizeRotation %d times" % len(calls))
    arg = deref_local(ri, calls[0]["args"][0])

    argfn = ri
    a0 = skip_copies(arg) if isinstance(arg, dict) else None
    if isinstance(a0, dict) and a0.get("k") == "ref" and a0.get("dk") == "param" and not by_message:
        # the size is measured by the caller (send() encodes the record once and passes its length): follow the parameter
        idx = [i_ for i_, p_ in enumerate(ri.params) if p_.get("decl") == a0.get("decl")]
        cl = [c_ for c_ in S.calls_to(S.send, "rotateIfNeeded")]
        if idx and len(cl) == 1 and len(cl[0].get("args", [])) > idx[0]:
            arg = deref_local(S.send, cl[0]["args"][idx[0]])
            argfn = S.send

    def lensym(n):
        return "len" if enc_len(n, argfn) else None
    if by_message:
        okm = is_ref_to(arg, ri.params[0]["decl"])
        ck.ob("C07-O1", sitestr(ri, calls[0]), okm, "the size check is given the record that is about to be written" if okm else "the size check is given %s" % describe(arg), key="rotateIfNeeded|added-size-source")
        lf = {"len": 1, "": 0}
    else:
        lf = linear(arg, lensym)
    if lf is None or lf.get("len") != 1 or set(lf) - {"len", ""}:
        chars = any(is_call(x, ("QString::size", "QString::length")) for x in walk(arg))
        ck.ob("C07-O1", sitestr(ri, calls[0]), False if chars else None, "the added size is %s%s" % (describe(arg), ": UTF-16 code units, not bytes" if chars else ""), key="rotateIfNeeded|added-size-source")
        return
    c = lf.get("", 0)
    ck.notes.append("rotateIfNeeded passes encoded length + %d to checkSizeRotation; whether the newline is counted in total is decided by the grid below" % c)
    # grid
    bad = []
    maybe = []
    n = 0
    for cur, ln, L in itertools.product(range(0, 8), range(0, 7), range(1, 11)):
        add = ln + c
        def leaf(x, cur=cur, add=add, L=L, ln=ln):
            s = sym(x)
            return {"cur": cur, "add": add, "len": ln, "L": L}.get(s) if s else None
        leaf.fn = cs
        cleaf = S.count_leaf(3, extra=leaf)
        cleaf.fn = cs
        proj = g.projector(numeric_atom(cs, cleaf))
        live = rsite in g.live(proj)
        need = cur >= 1 and cur + ln + 1 > L
        n += 1
        if need and not live:
            bad.append((cur, ln, L))
        elif need and not g.must_pass({rsite}, keep=proj):
            maybe.append((cur, ln, L))
    if maybe and not bad:
        # rotate() can be reached but a guard that is not a function of (current, length, limit, file count) can also lead past it
        known = {LF} | set(S.fields_for_count(3))
        flds = {}
        for b_ in g.blocks.values():
            c_ = cs.nodes.get(b_.get("cond")) if b_.get("cond") is not None else None
            for x in (walk(c_) if isinstance(c_, dict) else ()):
                if x.get("k") == "member" and x.get("dk") == "field" and skip_copies(x.get("base") or {}).get("k") == "this" and strip_tmpl(x.get("name") or "") not in known:
                    flds.setdefault(strip_tmpl(x["name"]), x)
        definite = None
        reach_cs = F.reachable_from([F.fns[cs.id] if cs.id in F.fns else cs], virtual=False)
        for fq, node in flds.items():
            ws = [(f_, n_, how_) for f_, n_, how_ in field_writes(F, fq)]
            def value_false(f_, n_):
                par = f_.nodes.get(f_.parent.get(n_["id"])) if n_.get("id") in f_.parent else None
                rhs = par.get("rhs") if isinstance(par, dict) and par.get("k") == "binop" and par.get("op") == "=" else None
                return isinstance(rhs, dict) and skip_copies(rhs).get("k") == "bool" and not skip_copies(rhs).get("v")
            setters = [(f_, n_) for f_, n_, how_ in ws if how_ != "ctor-init" and f_.id in reach_cs and f_.id != cs.id and not value_false(f_, n_)]
            clears = [(f_, n_) for f_, n_, how_ in ws if how_ != "ctor-init" and value_false(f_, n_) and f_.id != cs.id and (f_.id, n_["id"]) not in {(a.id, b["id"]) for a, b in setters}]
            if setters and not clears:
                definite = (fq, setters[0])
        if definite:
            fq, (sf, sn) = definite
            ck.ob("C07-O1", sitestr(cs, rot[0]), False, "the size check is skipped while %s is set, and %s sets it during the rotation the check itself starts: the flag is still set when the next record arrives, which is "
                  "appended unchecked - e.g. (current, length, L) = %s is not rotated" % (fq.split("::")[-1], strip_tmpl(sf.name).split("::")[-1] + "()", maybe[0]), key="checkSizeRotation|inequality")
        else:
            ck.ob("C07-O1", sitestr(cs, rot[0]), None, "a guard on %s lies between the size comparison and rotate(): for (current, length, L) = %s the rotation is needed but not certain" % (sorted(x.split("::")[-1] for x in flds) or "unrecognised state", maybe[0]),
                  key="checkSizeRotation|inequality")
        bad = None
    if bad is not None:
      ck.ob("C07-O1", sitestr(cs, rot[0]), not bad, "%d grid points (current 0..7, length 0..6, L 1..10): rotate() is reached whenever current > 0 and current + length + 1 > L" % n if not bad else
          "no rotation for (current, length, L) = %s: the file grows to %d > L bytes (the terminating newline or a boundary case is not counted)" % (bad[0], bad[0][0] + bad[0][1] + 1), key="checkSizeRotation|inequality")
    # ---- O2
    if counter and not cur_locals:
        counter_protocol(ck, S, sorted(counter)[0])
    elif len(cur_locals) != 1:
        direct = [x for x in cs.calls() if is_call(x, ("size",)) ]
        ck.ob("C07-O2", sitestr(cs), None, "current size is not held in exactly one local (%d)" % len(cur_locals))
    else:
        v, dn = cur_locals[0]
        src = skip_copies(v["init"])
        ok = is_call(src, ("QFileDevice::size", "QFile::size", "QIODevice::size")) and S.is_active_file(src.get("obj"))
        viaInfo = any(x.get("k") == "construct" and x.get("class") == "QFileInfo" for x in walk(src)) or is_call(src, "QFileInfo::size")
        viaPos = is_call(src, ("pos", "QIODevice::pos", "QFileDevice::pos"))
        ck.ob("C07-O2", sitestr(cs, dn), True if ok else (False if viaInfo else None), "current size = size() of the open active file" if ok else
              "current size = %s%s" % (describe(src), ": a directory lookup does not see bytes still in the write buffer" if viaInfo else ""), key="checkSizeRotation|size-source")
    # ---- O3
    bad = []
    csite = gi.site_of(calls[0])
    for L in (1, 2, 100):
        keep = gi.projector(numeric_atom(ri, lambda x, L=L: L if is_this_field(x, LF) else None))
        if not gi.must_pass({csite}, keep=keep):
            bad.append(L)
    ck.ob("C07-O3", sitestr(ri, calls[0]), not bad, "with L in {1,2,100} every path of rotateIfNeeded evaluates the size check" if not bad else "the size check is skipped for L in %s" % bad, key="rotateIfNeeded|size-check-skipped")
    bad = []
    for L in (1, 2, 100):
        keep = g.projector(numeric_atom(cs, lambda x, L=L: L if is_this_field(x, LF) else None))
        # the comparison itself must be reached (not returned before)
        cmp_sites = [g.site_of(c) for c in conds if "cur" in (comparison_form(c, sym, cs)[0])]
        if not any(s in g.live(keep) for s in cmp_sites if s):
            bad.append(L)
    ck.ob("C07-O3", sitestr(cs), not bad, "the early return is taken only for L <= 0" if not bad else "checkSizeRotation returns early for L in %s" % bad, key="checkSizeRotation|early-return")
    snd = S.send
    gs = S.g(snd)
    rcall = [n for n in S.calls_to(snd, "rotateIfNeeded")]
    wcall = S.record_writes(snd)
    if len(rcall) == 1 and len(wcall) >= 1:
        ok = all(gs.dominated(gs.site_of(w_), {gs.site_of(rcall[0])}) for w_ in wcall)
        ck.ob("C07-O3", sitestr(snd), ok, "the check precedes the write of the record" if ok else "the record is written before the size check", key="send|check-after-write")
    else:
        ck.ob("C07-O3", sitestr(snd), None, "send(): %d calls of rotateIfNeeded, %d writes of the record found" % (len(rcall), len(wcall)), key="send|check-after-write")
    # what is measured is what is written: the write site adds nothing but the one newline to the encoded text
    ck.rule("C07-O5", "bytes written per record = encode(formattedMessage()) + one newline, the quantity rotateIfNeeded measures (no padding, indentation, prefix or re-encoding at the write site)")
    from rules.c05 import record_framing
    record_framing(ck, S, "C07-O5")
    # ... in the same encoding: UTF-8 and the local 8-bit codec give different lengths for the same text (GB18030: U+00FF is 4 bytes, 2 in UTF-8)
    def encoders(fns):
        return {strip_tmpl(x.get("callee") or "").split("::")[-1] for f_ in fns for x in f_.all_nodes() if x.get("k") == "call" and
                strip_tmpl(x.get("callee") or "").split("::")[-1] in ("toUtf8", "toLocal8Bit", "toLatin1", "toUcs4", "toStdString") and
                any(is_call(y, LM + "::formattedMessage") for y in walk(x.get("obj") or {}))}
    written = encoders([S.io_send])
    measured = encoders([f_ for f_ in (ri, cs, S.send) if f_ is not None and f_.id != S.io_send.id]) - (written if S.send.id == S.io_send.id else set())
    # send() may contain the spliced write itself: what is measured is whatever feeds the size check
    measured_only = {e_ for e_ in measured}
    if written and measured_only:
        okenc = measured_only <= written or (len(measured_only) > 1 and written < measured_only and all(
            not any(is_call(a_, LM + "::formattedMessage") or True for a_ in ()) for _ in ()))
        differs = bool(measured_only - written)
        # when the rotating send() carries the spliced write, both encoders show up there: the write's own encoder is not a disagreement
        if differs and S.record_writes(S.send) and all(name_is(w_.get("callee"), ("QIODevice::write", "QIODevice::putChar")) for w_ in S.record_writes(S.send)):
            differs = bool(encoders([ri, cs]) - written)
        ck.ob("C07-O5", sitestr(ri), not differs, "the record is measured in the encoding it is written in (%s)" % "/".join(sorted(written)) if not differs else
              "the size check measures %s() of the record, the sink writes %s(): with a locale codec whose encoding of a character is longer than the measured one the file outgrows the limit "
              "(GB18030: four U+00FF are 17 bytes on disk, 9 measured)" % ("/".join(sorted(measured_only - written)), "/".join(sorted(written))), key="rotateIfNeeded|encoder-agreement")
    else:
        ck.ob("C07-O5", sitestr(ri), None, "the encoders of the measured (%s) and the written (%s) record were not both found" % (sorted(measured_only), sorted(written)), key="rotateIfNeeded|encoder-agreement")
    wr = [n for n in S.io_send.calls() if name_is(n.get("callee"), ("QIODevice::write", "QIODevice::putChar"))]
    ck.ob("C07-O3", sitestr(S.io_send), len(wr) == 1, "a record is one write (never split across a rotation)" if len(wr) == 1 else "a record is written in %d pieces" % len(wr), key="IODeviceSink::send|split-record")
    ck.rule("C07-O6", "a size of the active file read before a rotation is not used after it (the daily check may rotate before the size check runs)")
    from rules.rfs import stale_size, size_not_narrowed
    stale_size(ck, S, "C07-O6")
    ck.rule("C07-O7", "the 64-bit size of the active file is never converted to a narrower integer type")
    size_not_narrowed(ck, S, "C07-O7")


def counter_protocol(ck, S, fld):
    """the current size is a member counter: it equals the file's size only if it is loaded from the file whenever the active
    file is (re)opened or first used, and advanced by exactly the bytes of every record"""
    F = ck.facts
    short = fld.split("::")[-1]
    INIT = RP + "::m_initialized"

    def size_of_active(e):
        e = skip_copies(e)
        return is_call(e, ("QFileDevice::size", "QFile::size", "QIODevice::size")) and S.is_active_file(skip_copies(e).get("obj"))

    def writes(f):
        out = []
        for n in f.find(lambda n: n.get("k") == "binop" and n.get("op") in ("=", "+=", "-=") and is_this_field(n.get("lhs"), fld)):
            out.append((n, n["op"], n.get("rhs")))
        for n in f.find(lambda n: n.get("k") == "unop" and n.get("op") in ("++", "--") and is_this_field(n.get("e"), fld)):
            out.append((n, n["op"], None))
        return out
    it, rt, ri = S.m["init"], S.m["rotate"], S.m["rotateIfNeeded"]
    # (a) loaded from the file before the first check
    g = S.g(it)
    loads = [n for n, op, rhs in writes(it) if op == "=" and size_of_active(rhs)]
    keep = g.projector(atom_eq(lambda n: is_this_field(n, INIT), False))
    ok = bool(loads) and g.must_pass(set(g.sites_of_nodes(loads)), keep=keep)
    ck.ob("C07-O2", sitestr(it), ok, "%s is loaded from the active file's size() on first use" % short if ok else
          "%s is never loaded from the file: a log file left by a previous run counts as empty, so the file can grow to its old size + L" % short, key="checkSizeRotation|size-source")
    # (b) re-loaded after every reopen in rotate()
    g = S.g(rt)
    opens = [n for n in rt.calls() if open_flags(n) is not None and S.is_active_file(n.get("obj"))]
    rl = [n for n, op, rhs in writes(rt) if op == "=" and size_of_active(rhs)]
    for o in opens:
        ok = bool(rl) and g.postdominated(g.site_of(o), set(g.sites_of_nodes(rl)))
        others = [describe(n) for n, op, rhs in writes(rt) if n not in rl]
        ck.ob("C07-O2", sitestr(rt, o), ok, "after the reopen %s is re-loaded from size() (a failed rename keeps the old content)" % short if ok else
              "after the reopen in rotate() %s is not re-loaded from the file (%s): when the rename failed the old content is still there" % (short, others or "no write"), key="rotate|size-counter-reset")
    # (c) advanced by the added size of every record
    g = S.g(ri)
    adds = [n for n, op, rhs in writes(ri) if op == "+="]
    keepL = g.projector(numeric_atom(ri, lambda x: 100 if is_this_field(x, RP + "::m_maxFileSize") else None))
    ok = bool(adds) and g.must_pass(set(g.sites_of_nodes(adds)), keep=keepL)
    if not adds:
        snd = S.send
        adds2 = [n for n, op, rhs in writes(snd) if op == "+="]
        ok = bool(adds2) and S.g(snd).must_pass(set(S.g(snd).sites_of_nodes(adds2)))
    ck.ob("C07-O2", sitestr(ri), ok, "%s is advanced on every send (with a size limit)" % short if ok else "%s is not advanced on every path of a send" % short, key="rotateIfNeeded|size-counter-advance")
