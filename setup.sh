#!/bin/sh
# builds the libTooling fact extractor (offline; clang/llvm 14 from the image)
set -e
cd "$(dirname "$0")"
mkdir -p .build evidence reports .cache
if [ ! -x .build/qlx ] || [ qlx/qlx.cc -nt .build/qlx ]; then
  clang++ $(llvm-config-14 --cxxflags) -std=c++17 -fno-rtti -O1 qlx/qlx.cc -o .build/qlx.tmp \
    /usr/lib/llvm-14/lib/libclang-cpp.so.14 /usr/lib/llvm-14/lib/libLLVM-14.so
  mv .build/qlx.tmp .build/qlx
fi
echo "qlx ready"
